"""model.py / model_conversions.py / api_pb2 descriptors (introspection of the imported modules of /repo) ->
coq/Generated/GenModel.v: enum pairs (model enum vs wire enum), class pairs (wire message vs model class with the
converter kind of every field).  Pairing is derived from use (converter on a field of that wire enum type, the two
conversion tables, nested converters) plus equal names; anything outside the closed set of converter kinds fails closed."""
import dataclasses
import enum
import importlib
import re
import sys

from .util import REPO, TranslationError, coq_Z, coq_list, coq_string, write


def load():
    if str(REPO) not in sys.path:
        sys.path.insert(0, str(REPO))
    mods = {}
    for m in ("aioesphomeapi.api_pb2", "aioesphomeapi.model", "aioesphomeapi.model_conversions", "aioesphomeapi.util"):
        mods[m.split(".")[-1]] = importlib.import_module(m)
    if not str(mods["model"].__file__).startswith(str(REPO)):
        raise TranslationError(f"aioesphomeapi imported from {mods['model'].__file__}, not from {REPO}")
    return mods


def strip_common_prefix(names):
    """Remove the longest common prefix that ends with '_' (the enum's own prefix, e.g. CLIMATE_FAN_ / LOG_LEVEL_)."""
    if len(names) < 2:
        return list(names)
    import os
    p = os.path.commonprefix(list(names))
    p = p[: p.rfind("_") + 1]
    return [n[len(p):] for n in names]


def conv_kind(f, model, util):
    c = f.metadata.get("converter")
    if c is None:
        return ("KNone",)
    owner = getattr(c, "__self__", None)
    fn = getattr(c, "__func__", None)
    if isinstance(owner, type) and issubclass(owner, model.APIIntEnum):
        if fn is model.APIIntEnum.convert.__func__:
            return ("KEnum", owner.__name__)
        if fn is model.APIIntEnum.convert_list.__func__:
            return ("KEnumList", owner.__name__)
    if c is util.fix_float_single_double_conversion:
        return ("KFloatFix",)
    if c is list:
        return ("KListCopy",)
    if isinstance(owner, type) and dataclasses.is_dataclass(owner) and getattr(c, "__name__", "") == "convert_list":
        return ("KNestedList", owner.__name__)
    raise TranslationError(f"converter of field {f.name} is outside the known kinds: {c!r}")


def extract():
    m = load()
    pb, model, mc, util = m["api_pb2"], m["model"], m["model_conversions"], m["util"]
    pairs = []
    for table in ("SUBSCRIBE_STATES_RESPONSE_TYPES", "LIST_ENTITIES_SERVICES_RESPONSE_TYPES"):
        for k, v in getattr(mc, table).items():
            if v is not None:
                pairs.append((k, v, True))
    extra = [("DeviceInfoResponse", "DeviceInfo", True), ("ListEntitiesServicesResponse", "UserService", True),
             ("ListEntitiesServicesArgument", "UserServiceArg", True), ("MediaPlayerSupportedFormat", "MediaPlayerSupportedFormat", True)]
    for pbn, mn, strict in extra:
        if not hasattr(pb, pbn) or not hasattr(model, mn):
            raise TranslationError(f"expected pair {pbn}/{mn} not found")
        pairs.append((getattr(pb, pbn), getattr(model, mn), strict))
    class_pairs, enum_pairs = [], {}
    for pbc, moc, strict in pairs:
        pbf = {f.name: f for f in pbc.DESCRIPTOR.fields}
        fields = []
        for f in dataclasses.fields(moc):
            k = conv_kind(f, model, util)
            fields.append((f.name, k))
            if k[0] in ("KEnum", "KEnumList"):
                d = pbf.get(f.name)
                if d is None or d.enum_type is None:
                    raise TranslationError(f"{moc.__name__}.{f.name}: enum converter on a field that is not a wire enum")
                enum_pairs[(k[1], d.enum_type.name)] = "converter on " + moc.__name__ + "." + f.name
        class_pairs.append((pbc.DESCRIPTOR.name, moc.__name__, fields, [f.name for f in pbc.DESCRIPTOR.fields]))
    # equal names: a model enum named like a wire enum is meant to mirror it
    wire_enums = pb.DESCRIPTOR.enum_types_by_name
    for name, obj in vars(model).items():
        if isinstance(obj, type) and issubclass(obj, enum.IntEnum) and obj is not model.APIIntEnum and name in wire_enums:
            enum_pairs.setdefault((name, name), "same name")
    out_enums = []
    for (me, we), why in sorted(enum_pairs.items()):
        M = getattr(model, me)
        W = wire_enums[we]
        wv = list(zip(strip_common_prefix([v.name for v in W.values]), [v.number for v in W.values]))
        mv = list(zip(strip_common_prefix(list(M.__members__)), [int(mem.value) for mem in M.__members__.values()]))
        out_enums.append((me, we, mv, wv, why))
    return class_pairs, out_enums


def kind_txt(k):
    return k[0] if len(k) == 1 else f"({k[0]} {coq_string(k[1])})"


def generate():
    class_pairs, enum_pairs = extract()
    sz = lambda l: coq_list((f"({coq_string(n)}, {coq_Z(v)})" for n, v in l), per_line=8)  # noqa: E731
    body = "From Verif Require Import Model.Schema Model.Convert.\n"
    body += "\n(* (model enum, wire enum, model members incl. aliases, wire values with the enum's prefix removed) *)\n"
    body += "Definition enum_pairs : list (string * string * list (string * Z) * list (string * Z)) := " + coq_list(
        f"({coq_string(me)}, {coq_string(we)}, {sz(mv)}, {sz(wv)})  (* {why} *)" for me, we, mv, wv, why in enum_pairs) + ".\n"
    body += "\n(* (wire message, model class, model fields with converter kind, wire field names) *)\n"
    body += "Definition class_pairs : list (string * string * list (string * ckind) * list string) := " + coq_list(
        f"({coq_string(pbn)}, {coq_string(mn)}, " + coq_list((f"({coq_string(n)}, {kind_txt(k)})" for n, k in fs), per_line=8) + ", " +
        coq_list((coq_string(n) for n in pf), per_line=8) + ")" for pbn, mn, fs, pf in class_pairs) + ".\n"
    return write("GenModel", "aioesphomeapi/model.py, model_conversions.py, api_pb2 descriptors", body)
