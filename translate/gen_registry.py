"""core.MESSAGE_TYPE_TO_PROTO (dict literal, Python ast) -> coq/Generated/GenRegistry.v"""
import ast

from .util import PKG, TranslationError, coq_N, coq_list, coq_string, write


def extract():
    tree = ast.parse((PKG / "core.py").read_text())
    imports = {}
    for node in tree.body:
        if isinstance(node, ast.ImportFrom) and node.module == "api_pb2" and node.level == 1:
            for a in node.names:
                imports[a.asname or a.name] = a.name
    reg = None
    for node in tree.body:
        if isinstance(node, ast.Assign) and len(node.targets) == 1 and isinstance(node.targets[0], ast.Name) \
                and node.targets[0].id == "MESSAGE_TYPE_TO_PROTO":
            if reg is not None:
                raise TranslationError("MESSAGE_TYPE_TO_PROTO assigned twice")
            if not isinstance(node.value, ast.Dict):
                raise TranslationError("MESSAGE_TYPE_TO_PROTO is not a dict literal")
            reg = []
            for k, v in zip(node.value.keys, node.value.values):
                if not (isinstance(k, ast.Constant) and type(k.value) is int):
                    raise TranslationError(f"registry key is not an int literal: {ast.dump(k)}")
                if not isinstance(v, ast.Name) or v.id not in imports:
                    raise TranslationError(f"registry value is not an imported api_pb2 class: {ast.dump(v)}")
                reg.append((k.value, imports[v.id]))
        elif isinstance(node, (ast.AugAssign, ast.AnnAssign)) and "MESSAGE_TYPE_TO_PROTO" in ast.dump(node):
            raise TranslationError("MESSAGE_TYPE_TO_PROTO modified after its definition")
    if reg is None:
        raise TranslationError("MESSAGE_TYPE_TO_PROTO not found")
    # connection.py must derive the positional table and inverse map the way the model assumes
    ctree = ast.parse((PKG / "connection.py").read_text())
    seen = {}
    for node in ctree.body:
        if isinstance(node, ast.Assign) and isinstance(node.targets[0], ast.Name):
            seen[node.targets[0].id] = ast.unparse(node.value)
    if seen.get("MESSAGE_NUMBER_TO_PROTO") != "tuple(MESSAGE_TYPE_TO_PROTO.values())":
        raise TranslationError("MESSAGE_NUMBER_TO_PROTO is not tuple(MESSAGE_TYPE_TO_PROTO.values())")
    if seen.get("PROTO_TO_MESSAGE_TYPE") != "{v: k for k, v in MESSAGE_TYPE_TO_PROTO.items()}":
        raise TranslationError("PROTO_TO_MESSAGE_TYPE is not the inverse dict comprehension")
    return reg


def generate():
    reg = extract()
    body = "\n(* id -> message class name, in declaration order of the dict literal *)\n"
    body += "Definition registry : list (N * string) := " + coq_list(
        f"({coq_N(i)}, {coq_string(n)})" for i, n in reg) + ".\n"
    return write("GenRegistry", "aioesphomeapi/core.py", body)
