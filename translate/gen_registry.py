"""core.MESSAGE_TYPE_TO_PROTO (dict literal, Python ast) -> coq/Generated/GenRegistry.v"""
import ast

from .util import PKG, TranslationError, coq_N, coq_list, coq_string, write


def extract():
    tree = ast.parse((PKG / "core.py").read_text())
    imports = {}
    for node in tree.body:
        if isinstance(node, ast.ImportFrom) and node.module == "api_pb2" and node.level == 1:
            for a in node.names:
                imports[a.asname or a.name] = a.name
    reg = None
    for node in tree.body:
        val = None
        if isinstance(node, ast.Assign) and len(node.targets) == 1 and isinstance(node.targets[0], ast.Name) \
                and node.targets[0].id == "MESSAGE_TYPE_TO_PROTO":
            val = node.value
        elif isinstance(node, ast.AnnAssign) and isinstance(node.target, ast.Name) and node.target.id == "MESSAGE_TYPE_TO_PROTO" \
                and node.value is not None:
            val = node.value
        if val is not None:
            if reg is not None:
                raise TranslationError("MESSAGE_TYPE_TO_PROTO assigned twice")
            if not isinstance(val, ast.Dict):
                raise TranslationError("MESSAGE_TYPE_TO_PROTO is not a dict literal")
            reg = []
            for k, v in zip(val.keys, val.values):
                if not (isinstance(k, ast.Constant) and type(k.value) is int):
                    raise TranslationError(f"registry key is not an int literal: {ast.dump(k)}")
                if not isinstance(v, ast.Name) or v.id not in imports:
                    raise TranslationError(f"registry value is not an imported api_pb2 class: {ast.dump(v)}")
                reg.append((k.value, imports[v.id]))
        else:
            touched = []
            if isinstance(node, ast.Assign):
                touched = node.targets
            elif isinstance(node, (ast.AugAssign, ast.AnnAssign)):
                touched = [node.target]
            elif isinstance(node, ast.Delete):
                touched = node.targets
            elif isinstance(node, ast.Expr):
                touched = [node.value]
            if any("MESSAGE_TYPE_TO_PROTO" in ast.dump(t) for t in touched):
                raise TranslationError("MESSAGE_TYPE_TO_PROTO modified after its definition")
    if reg is None:
        raise TranslationError("MESSAGE_TYPE_TO_PROTO not found")
    # connection.py must derive the positional table and inverse map the way the model assumes
    ctree = ast.parse((PKG / "connection.py").read_text())
    seen = {}
    for node in ctree.body:
        if isinstance(node, ast.Assign) and len(node.targets) == 1 and isinstance(node.targets[0], ast.Name):
            tgt, val = node.targets[0].id, node.value
        elif isinstance(node, ast.AnnAssign) and isinstance(node.target, ast.Name) and node.value is not None:
            tgt, val = node.target.id, node.value
        else:
            continue
        if tgt in seen and tgt in ("MESSAGE_NUMBER_TO_PROTO", "PROTO_TO_MESSAGE_TYPE"):
            raise TranslationError(f"{tgt} assigned twice")
        seen[tgt] = val
    num = seen.get("MESSAGE_NUMBER_TO_PROTO")
    if num is None:
        # ... or connection.py imports the table core.py builds in exactly that way (and core.py binds the name only once)
        imported = any(isinstance(n, ast.ImportFrom) and n.level == 1 and n.module == "core"
                       and any(a.name == "MESSAGE_NUMBER_TO_PROTO" and a.asname in (None, "MESSAGE_NUMBER_TO_PROTO") for a in n.names)
                       for n in ctree.body)
        core_defs = []
        for node in tree.body:
            if isinstance(node, ast.Assign) and any(isinstance(t, ast.Name) and t.id == "MESSAGE_NUMBER_TO_PROTO" for t in node.targets):
                core_defs.append(node.value)
            elif isinstance(node, (ast.AnnAssign, ast.AugAssign)) and isinstance(node.target, ast.Name) and node.target.id == "MESSAGE_NUMBER_TO_PROTO":
                core_defs.append(getattr(node, "value", None))
        if imported and len(core_defs) == 1 and core_defs[0] is not None:
            num = core_defs[0]
    if num is None or ast.unparse(num) != "tuple(MESSAGE_TYPE_TO_PROTO.values())":
        raise TranslationError("MESSAGE_NUMBER_TO_PROTO is not tuple(MESSAGE_TYPE_TO_PROTO.values())")
    inv = seen.get("PROTO_TO_MESSAGE_TYPE")
    ok = isinstance(inv, ast.DictComp) and len(inv.generators) == 1 and not inv.generators[0].ifs and not inv.generators[0].is_async \
        and ast.unparse(inv.generators[0].iter) == "MESSAGE_TYPE_TO_PROTO.items()" \
        and isinstance(inv.generators[0].target, ast.Tuple) and len(inv.generators[0].target.elts) == 2 \
        and all(isinstance(e, ast.Name) for e in inv.generators[0].target.elts) \
        and isinstance(inv.key, ast.Name) and isinstance(inv.value, ast.Name)
    if ok:
        kname, vname = (e.id for e in inv.generators[0].target.elts)
        ok = kname != vname and inv.key.id == vname and inv.value.id == kname
    if not ok:
        raise TranslationError("PROTO_TO_MESSAGE_TYPE is not the inverse dict comprehension")
    return reg


def generate():
    reg = extract()
    body = "\n(* id -> message class name, in declaration order of the dict literal *)\n"
    body += "Definition registry : list (N * string) := " + coq_list(
        f"({coq_N(i)}, {coq_string(n)})" for i, n in reg) + ".\n"
    return write("GenRegistry", "aioesphomeapi/core.py", body)
