"""Run every translator: regenerate coq/Generated/*.v from /repo's working tree.

Each translator is fail-closed on its own: one that meets source text outside its grammar leaves its previous output in place
and is recorded in ERRORS; only the properties whose theorems depend on that output (Require closure) are then reported as
no longer shown (vlib/common.py Report.proofs) - the others do not rest on the file and are checked as usual."""
import importlib
import shutil
import sys
from pathlib import Path

BASELINE = Path(__file__).resolve().parent / "baseline"     # outputs for the pinned tree (committed; tools/refresh_baseline.sh)
GEN = Path(__file__).resolve().parent.parent / "coq" / "Generated"

TRANSLATORS = ["gen_registry", "gen_proto", "gen_clientapi", "gen_constants", "gen_model", "gen_commands"]
OUTPUTS = {
    "gen_registry": ["Generated/GenRegistry.v"],
    "gen_proto": ["Generated/GenProto.v", "Generated/GenDescriptors.v"],
    "gen_clientapi": ["Generated/GenClientAPI.v"],
    "gen_constants": ["Generated/GenConstants.v"],
    "gen_model": ["Generated/GenModel.v"],
    "gen_commands": ["Generated/GenCommands.v"],
}
ERRORS = {}     # translator -> "ExceptionType: message" of the last run_all()


def run_all(strict=False):
    changed = []
    ERRORS.clear()
    for name in TRANSLATORS:
        mod = importlib.import_module(f"translate.{name}")
        try:
            if mod.generate():
                changed.append(name)
        except Exception as e:      # fail-closed: anything a translator cannot follow
            if strict:
                raise
            ERRORS[name] = f"{type(e).__name__}: {e}"
            # keep the project buildable for the properties that do not rest on this file: previous output, else the baseline
            for f in OUTPUTS[name]:
                dst = GEN / Path(f).name
                if not dst.exists():
                    GEN.mkdir(parents=True, exist_ok=True)
                    shutil.copy(BASELINE / Path(f).name, dst)
    return changed


def stale_outputs():
    """generated files whose translator failed in the last run_all()"""
    return {f: (t, ERRORS[t]) for t in ERRORS for f in OUTPUTS[t]}


if __name__ == "__main__":
    print("regenerated:", run_all(strict="--strict" in sys.argv))
    for t, e in ERRORS.items():
        print(f"translator {t} could not follow the source: {e}", file=sys.stderr)
