"""Run every translator: regenerate coq/Generated/*.v from /repo's working tree."""
import importlib
import sys

TRANSLATORS = ["gen_registry", "gen_proto", "gen_clientapi", "gen_constants", "gen_model", "gen_commands"]


def run_all():
    changed = []
    for name in TRANSLATORS:
        mod = importlib.import_module(f"translate.{name}")
        if mod.generate():
            changed.append(name)
    return changed


if __name__ == "__main__":
    print("regenerated:", run_all())
