(* GENERATED on every run by /verif/translate/GenCommands.py from aioesphomeapi/client.py (command methods), api_pb2 descriptors — do not edit. *)
From Coq Require Import NArith ZArith String List.
Import ListNotations.
Open Scope string_scope.
From Verif Require Import Model.CommandIR.

Definition commands : list cmd := [
  mkCmd "cover_command" "CoverCommandRequest" ["key"; "position"; "tilt"; "stop"] ["position"; "tilt"]
    ["key"; "has_legacy_command"; "legacy_command"; "has_position"; "position"; "has_tilt"; "tilt"; "stop"]
    [SAssign "key" (EParam "key")]
    [
  SIf (CApiGe 1 1) [SIf (CNotNone "position") [SAssign "has_position" (EConstB true); SAssign "position" (EParam "position")] []; SIf (CNotNone "tilt") [SAssign "has_tilt" (EConstB true); SAssign "tilt" (EParam "tilt")] []; SIf (CTruthy "stop") [SAssign "stop" (EParam "stop")] []] [SIf (CTruthy "stop") [SAssign "legacy_command" (EEnum "LegacyCoverCommand" "STOP"); SAssign "has_legacy_command" (EConstB true)] [SIf (CEqFloat "position" 1) [SAssign "legacy_command" (EEnum "LegacyCoverCommand" "OPEN"); SAssign "has_legacy_command" (EConstB true)] [SIf (CEqFloat "position" 0) [SAssign "legacy_command" (EEnum "LegacyCoverCommand" "CLOSE"); SAssign "has_legacy_command" (EConstB true)] []]]]
];
  mkCmd "fan_command" "FanCommandRequest" ["key"; "state"; "speed"; "speed_level"; "oscillating"; "direction"; "preset_mode"] ["state"; "speed"; "speed_level"; "oscillating"; "direction"; "preset_mode"]
    ["key"; "has_state"; "state"; "has_speed"; "speed"; "has_oscillating"; "oscillating"; "has_direction"; "direction"; "has_speed_level"; "speed_level"; "has_preset_mode"; "preset_mode"]
    [SAssign "key" (EParam "key")]
    [
  SIf (CNotNone "state") [SAssign "has_state" (EConstB true); SAssign "state" (EParam "state")] [];
  SIf (CNotNone "speed") [SAssign "has_speed" (EConstB true); SAssign "speed" (EParam "speed")] [];
  SIf (CNotNone "speed_level") [SAssign "has_speed_level" (EConstB true); SAssign "speed_level" (EParam "speed_level")] [];
  SIf (CNotNone "oscillating") [SAssign "has_oscillating" (EConstB true); SAssign "oscillating" (EParam "oscillating")] [];
  SIf (CNotNone "direction") [SAssign "has_direction" (EConstB true); SAssign "direction" (EParam "direction")] [];
  SIf (CNotNone "preset_mode") [SAssign "has_preset_mode" (EConstB true); SAssign "preset_mode" (EParam "preset_mode")] []
];
  mkCmd "light_command" "LightCommandRequest" ["key"; "state"; "brightness"; "color_mode"; "color_brightness"; "rgb"; "white"; "color_temperature"; "cold_white"; "warm_white"; "transition_length"; "flash_length"; "effect"] ["state"; "brightness"; "color_mode"; "color_brightness"; "rgb"; "white"; "color_temperature"; "cold_white"; "warm_white"; "transition_length"; "flash_length"; "effect"]
    ["key"; "has_state"; "state"; "has_brightness"; "brightness"; "has_color_mode"; "color_mode"; "has_color_brightness"; "color_brightness"; "has_rgb"; "red"; "green"; "blue"; "has_white"; "white"; "has_color_temperature"; "color_temperature"; "has_cold_white"; "cold_white"; "has_warm_white"; "warm_white"; "has_transition_length"; "transition_length"; "has_flash_length"; "flash_length"; "has_effect"; "effect"]
    [SAssign "key" (EParam "key")]
    [
  SIf (CNotNone "state") [SAssign "has_state" (EConstB true); SAssign "state" (EParam "state")] [];
  SIf (CNotNone "brightness") [SAssign "has_brightness" (EConstB true); SAssign "brightness" (EParam "brightness")] [];
  SIf (CNotNone "color_mode") [SAssign "has_color_mode" (EConstB true); SAssign "color_mode" (EParam "color_mode")] [];
  SIf (CNotNone "color_brightness") [SAssign "has_color_brightness" (EConstB true); SAssign "color_brightness" (EParam "color_brightness")] [];
  SIf (CNotNone "rgb") [SAssign "has_rgb" (EConstB true); SAssign "red" (EIndex "rgb" 0); SAssign "green" (EIndex "rgb" 1); SAssign "blue" (EIndex "rgb" 2)] [];
  SIf (CNotNone "white") [SAssign "has_white" (EConstB true); SAssign "white" (EParam "white")] [];
  SIf (CNotNone "color_temperature") [SAssign "has_color_temperature" (EConstB true); SAssign "color_temperature" (EParam "color_temperature")] [];
  SIf (CNotNone "cold_white") [SAssign "has_cold_white" (EConstB true); SAssign "cold_white" (EParam "cold_white")] [];
  SIf (CNotNone "warm_white") [SAssign "has_warm_white" (EConstB true); SAssign "warm_white" (EParam "warm_white")] [];
  SIf (CNotNone "transition_length") [SAssign "has_transition_length" (EConstB true); SAssign "transition_length" (ERoundMs "transition_length")] [];
  SIf (CNotNone "flash_length") [SAssign "has_flash_length" (EConstB true); SAssign "flash_length" (ERoundMs "flash_length")] [];
  SIf (CNotNone "effect") [SAssign "has_effect" (EConstB true); SAssign "effect" (EParam "effect")] []
];
  mkCmd "switch_command" "SwitchCommandRequest" ["key"; "state"] []
    ["key"; "state"]
    [SAssign "key" (EParam "key"); SAssign "state" (EParam "state")]
    [];
  mkCmd "climate_command" "ClimateCommandRequest" ["key"; "mode"; "target_temperature"; "target_temperature_low"; "target_temperature_high"; "fan_mode"; "swing_mode"; "custom_fan_mode"; "preset"; "custom_preset"; "target_humidity"] ["mode"; "target_temperature"; "target_temperature_low"; "target_temperature_high"; "fan_mode"; "swing_mode"; "custom_fan_mode"; "preset"; "custom_preset"; "target_humidity"]
    ["key"; "has_mode"; "mode"; "has_target_temperature"; "target_temperature"; "has_target_temperature_low"; "target_temperature_low"; "has_target_temperature_high"; "target_temperature_high"; "has_legacy_away"; "legacy_away"; "has_fan_mode"; "fan_mode"; "has_swing_mode"; "swing_mode"; "has_custom_fan_mode"; "custom_fan_mode"; "has_preset"; "preset"; "has_custom_preset"; "custom_preset"; "has_target_humidity"; "target_humidity"]
    [SAssign "key" (EParam "key")]
    [
  SIf (CNotNone "mode") [SAssign "has_mode" (EConstB true); SAssign "mode" (EParam "mode")] [];
  SIf (CNotNone "target_temperature") [SAssign "has_target_temperature" (EConstB true); SAssign "target_temperature" (EParam "target_temperature")] [];
  SIf (CNotNone "target_temperature_low") [SAssign "has_target_temperature_low" (EConstB true); SAssign "target_temperature_low" (EParam "target_temperature_low")] [];
  SIf (CNotNone "target_temperature_high") [SAssign "has_target_temperature_high" (EConstB true); SAssign "target_temperature_high" (EParam "target_temperature_high")] [];
  SIf (CNotNone "fan_mode") [SAssign "has_fan_mode" (EConstB true); SAssign "fan_mode" (EParam "fan_mode")] [];
  SIf (CNotNone "swing_mode") [SAssign "has_swing_mode" (EConstB true); SAssign "swing_mode" (EParam "swing_mode")] [];
  SIf (CNotNone "custom_fan_mode") [SAssign "has_custom_fan_mode" (EConstB true); SAssign "custom_fan_mode" (EParam "custom_fan_mode")] [];
  SIf (CNotNone "preset") [SIf (CApiLt 1 5) [SAssign "has_legacy_away" (EConstB true); SAssign "legacy_away" (EEqEnum "preset" "ClimatePreset" "AWAY")] [SAssign "has_preset" (EConstB true); SAssign "preset" (EParam "preset")]] [];
  SIf (CNotNone "custom_preset") [SAssign "has_custom_preset" (EConstB true); SAssign "custom_preset" (EParam "custom_preset")] [];
  SIf (CNotNone "target_humidity") [SAssign "has_target_humidity" (EConstB true); SAssign "target_humidity" (EParam "target_humidity")] []
];
  mkCmd "number_command" "NumberCommandRequest" ["key"; "state"] []
    ["key"; "state"]
    [SAssign "key" (EParam "key"); SAssign "state" (EParam "state")]
    [];
  mkCmd "date_command" "DateCommandRequest" ["key"; "year"; "month"; "day"] []
    ["key"; "year"; "month"; "day"]
    [SAssign "key" (EParam "key"); SAssign "year" (EParam "year"); SAssign "month" (EParam "month"); SAssign "day" (EParam "day")]
    [];
  mkCmd "time_command" "TimeCommandRequest" ["key"; "hour"; "minute"; "second"] []
    ["key"; "hour"; "minute"; "second"]
    [SAssign "key" (EParam "key"); SAssign "hour" (EParam "hour"); SAssign "minute" (EParam "minute"); SAssign "second" (EParam "second")]
    [];
  mkCmd "datetime_command" "DateTimeCommandRequest" ["key"; "epoch_seconds"] []
    ["key"; "epoch_seconds"]
    [SAssign "key" (EParam "key"); SAssign "epoch_seconds" (EParam "epoch_seconds")]
    [];
  mkCmd "select_command" "SelectCommandRequest" ["key"; "state"] []
    ["key"; "state"]
    [SAssign "key" (EParam "key"); SAssign "state" (EParam "state")]
    [];
  mkCmd "siren_command" "SirenCommandRequest" ["key"; "state"; "tone"; "volume"; "duration"] ["state"; "tone"; "volume"; "duration"]
    ["key"; "has_state"; "state"; "has_tone"; "tone"; "has_duration"; "duration"; "has_volume"; "volume"]
    [SAssign "key" (EParam "key")]
    [
  SIf (CNotNone "state") [SAssign "state" (EParam "state"); SAssign "has_state" (EConstB true)] [];
  SIf (CNotNone "tone") [SAssign "tone" (EParam "tone"); SAssign "has_tone" (EConstB true)] [];
  SIf (CNotNone "volume") [SAssign "volume" (EParam "volume"); SAssign "has_volume" (EConstB true)] [];
  SIf (CNotNone "duration") [SAssign "duration" (EParam "duration"); SAssign "has_duration" (EConstB true)] []
];
  mkCmd "button_command" "ButtonCommandRequest" ["key"] []
    ["key"]
    [SAssign "key" (EParam "key")]
    [];
  mkCmd "lock_command" "LockCommandRequest" ["key"; "command"; "code"] ["code"]
    ["key"; "command"; "has_code"; "code"]
    [SAssign "key" (EParam "key"); SAssign "command" (EParam "command")]
    [
  SIf (CNotNone "code") [SAssign "code" (EParam "code")] []
];
  mkCmd "valve_command" "ValveCommandRequest" ["key"; "position"; "stop"] ["position"]
    ["key"; "has_position"; "position"; "stop"]
    [SAssign "key" (EParam "key")]
    [
  SIf (CNotNone "position") [SAssign "has_position" (EConstB true); SAssign "position" (EParam "position")] [];
  SIf (CTruthy "stop") [SAssign "stop" (EParam "stop")] []
];
  mkCmd "media_player_command" "MediaPlayerCommandRequest" ["key"; "command"; "volume"; "media_url"; "announcement"] ["command"; "volume"; "media_url"; "announcement"]
    ["key"; "has_command"; "command"; "has_volume"; "volume"; "has_media_url"; "media_url"; "has_announcement"; "announcement"]
    [SAssign "key" (EParam "key")]
    [
  SIf (CNotNone "command") [SAssign "command" (EParam "command"); SAssign "has_command" (EConstB true)] [];
  SIf (CNotNone "volume") [SAssign "volume" (EParam "volume"); SAssign "has_volume" (EConstB true)] [];
  SIf (CNotNone "media_url") [SAssign "media_url" (EParam "media_url"); SAssign "has_media_url" (EConstB true)] [];
  SIf (CNotNone "announcement") [SAssign "announcement" (EParam "announcement"); SAssign "has_announcement" (EConstB true)] []
];
  mkCmd "text_command" "TextCommandRequest" ["key"; "state"] []
    ["key"; "state"]
    [SAssign "key" (EParam "key"); SAssign "state" (EParam "state")]
    [];
  mkCmd "update_command" "UpdateCommandRequest" ["key"; "command"] []
    ["key"; "command"]
    [SAssign "key" (EParam "key"); SAssign "command" (EParam "command")]
    [];
  mkCmd "alarm_control_panel_command" "AlarmControlPanelCommandRequest" ["key"; "command"; "code"] ["code"]
    ["key"; "command"; "code"]
    [SAssign "key" (EParam "key"); SAssign "command" (EParam "command")]
    [
  SIf (CNotNone "code") [SAssign "code" (EParam "code")] []
]
].
