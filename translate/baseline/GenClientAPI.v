(* GENERATED on every run by /verif/translate/GenClientAPI.py from aioesphomeapi/client.py, connection.py — do not edit. *)
From Coq Require Import NArith ZArith String List.
Import ListNotations.
Open Scope string_scope.

(* entry point, classes whose instances it may send, classes it may subscribe to *)
Definition client_api : list (string * list string * list string) := [
  ("APIClient.device_info", ["DeviceInfoRequest"], ["DeviceInfoResponse"]);
  ("APIClient.list_entities_services", ["ListEntitiesRequest"], ["ListEntitiesAlarmControlPanelResponse"; "ListEntitiesBinarySensorResponse"; "ListEntitiesButtonResponse"; "ListEntitiesCameraResponse"; "ListEntitiesClimateResponse"; "ListEntitiesCoverResponse"; "ListEntitiesDateResponse"; "ListEntitiesDateTimeResponse"; "ListEntitiesDoneResponse"; "ListEntitiesEventResponse"; "ListEntitiesFanResponse"; "ListEntitiesLightResponse"; "ListEntitiesLockResponse"; "ListEntitiesMediaPlayerResponse"; "ListEntitiesNumberResponse"; "ListEntitiesSelectResponse"; "ListEntitiesSensorResponse"; "ListEntitiesServicesResponse"; "ListEntitiesSirenResponse"; "ListEntitiesSwitchResponse"; "ListEntitiesTextResponse"; "ListEntitiesTextSensorResponse"; "ListEntitiesTimeResponse"; "ListEntitiesUpdateResponse"; "ListEntitiesValveResponse"]);
  ("APIClient.subscribe_states", ["SubscribeStatesRequest"], ["AlarmControlPanelStateResponse"; "BinarySensorStateResponse"; "CameraImageResponse"; "ClimateStateResponse"; "CoverStateResponse"; "DateStateResponse"; "DateTimeStateResponse"; "EventResponse"; "FanStateResponse"; "LightStateResponse"; "LockStateResponse"; "MediaPlayerStateResponse"; "NumberStateResponse"; "SelectStateResponse"; "SensorStateResponse"; "SirenStateResponse"; "SwitchStateResponse"; "TextSensorStateResponse"; "TextStateResponse"; "TimeStateResponse"; "UpdateStateResponse"; "ValveStateResponse"]);
  ("APIClient.subscribe_logs", ["SubscribeLogsRequest"], ["SubscribeLogsResponse"]);
  ("APIClient.subscribe_service_calls", ["SubscribeHomeassistantServicesRequest"], ["HomeassistantServiceResponse"]);
  ("APIClient.subscribe_bluetooth_le_advertisements", ["SubscribeBluetoothLEAdvertisementsRequest"; "UnsubscribeBluetoothLEAdvertisementsRequest"], ["BluetoothLEAdvertisementResponse"]);
  ("APIClient.subscribe_bluetooth_le_raw_advertisements", ["SubscribeBluetoothLEAdvertisementsRequest"; "UnsubscribeBluetoothLEAdvertisementsRequest"], ["BluetoothLERawAdvertisementsResponse"]);
  ("APIClient.subscribe_bluetooth_connections_free", ["SubscribeBluetoothConnectionsFreeRequest"], ["BluetoothConnectionsFreeResponse"]);
  ("APIClient.bluetooth_device_connect", ["BluetoothDeviceRequest"], ["BluetoothDeviceClearCacheResponse"; "BluetoothDeviceConnectionResponse"; "BluetoothDevicePairingResponse"; "BluetoothDeviceUnpairingResponse"]);
  ("APIClient.bluetooth_device_pair", ["BluetoothDeviceRequest"], ["BluetoothDeviceClearCacheResponse"; "BluetoothDeviceConnectionResponse"; "BluetoothDevicePairingResponse"; "BluetoothDeviceUnpairingResponse"]);
  ("APIClient.bluetooth_device_unpair", ["BluetoothDeviceRequest"], ["BluetoothDeviceClearCacheResponse"; "BluetoothDeviceConnectionResponse"; "BluetoothDevicePairingResponse"; "BluetoothDeviceUnpairingResponse"]);
  ("APIClient.bluetooth_device_clear_cache", ["BluetoothDeviceRequest"], ["BluetoothDeviceClearCacheResponse"; "BluetoothDeviceConnectionResponse"; "BluetoothDevicePairingResponse"; "BluetoothDeviceUnpairingResponse"]);
  ("APIClient.bluetooth_device_disconnect", ["BluetoothDeviceRequest"], ["BluetoothDeviceClearCacheResponse"; "BluetoothDeviceConnectionResponse"; "BluetoothDevicePairingResponse"; "BluetoothDeviceUnpairingResponse"]);
  ("APIClient.bluetooth_gatt_get_services", ["BluetoothGATTGetServicesRequest"], ["BluetoothDeviceConnectionResponse"; "BluetoothGATTErrorResponse"; "BluetoothGATTGetServicesDoneResponse"; "BluetoothGATTGetServicesResponse"]);
  ("APIClient.bluetooth_gatt_read", ["BluetoothGATTNotifyRequest"; "BluetoothGATTReadDescriptorRequest"; "BluetoothGATTReadRequest"; "BluetoothGATTWriteDescriptorRequest"; "BluetoothGATTWriteRequest"], ["BluetoothDeviceConnectionResponse"; "BluetoothGATTErrorResponse"; "BluetoothGATTNotifyResponse"; "BluetoothGATTReadResponse"; "BluetoothGATTWriteResponse"]);
  ("APIClient.bluetooth_gatt_read_descriptor", ["BluetoothGATTNotifyRequest"; "BluetoothGATTReadDescriptorRequest"; "BluetoothGATTReadRequest"; "BluetoothGATTWriteDescriptorRequest"; "BluetoothGATTWriteRequest"], ["BluetoothDeviceConnectionResponse"; "BluetoothGATTErrorResponse"; "BluetoothGATTNotifyResponse"; "BluetoothGATTReadResponse"; "BluetoothGATTWriteResponse"]);
  ("APIClient.bluetooth_gatt_write", ["BluetoothGATTNotifyRequest"; "BluetoothGATTReadDescriptorRequest"; "BluetoothGATTReadRequest"; "BluetoothGATTWriteDescriptorRequest"; "BluetoothGATTWriteRequest"], ["BluetoothDeviceConnectionResponse"; "BluetoothGATTErrorResponse"; "BluetoothGATTNotifyResponse"; "BluetoothGATTReadResponse"; "BluetoothGATTWriteResponse"]);
  ("APIClient.bluetooth_gatt_write_descriptor", ["BluetoothGATTNotifyRequest"; "BluetoothGATTReadDescriptorRequest"; "BluetoothGATTReadRequest"; "BluetoothGATTWriteDescriptorRequest"; "BluetoothGATTWriteRequest"], ["BluetoothDeviceConnectionResponse"; "BluetoothGATTErrorResponse"; "BluetoothGATTNotifyResponse"; "BluetoothGATTReadResponse"; "BluetoothGATTWriteResponse"]);
  ("APIClient.bluetooth_gatt_start_notify", ["BluetoothGATTNotifyRequest"; "BluetoothGATTReadDescriptorRequest"; "BluetoothGATTReadRequest"; "BluetoothGATTWriteDescriptorRequest"; "BluetoothGATTWriteRequest"], ["BluetoothDeviceConnectionResponse"; "BluetoothGATTErrorResponse"; "BluetoothGATTNotifyDataResponse"; "BluetoothGATTNotifyResponse"; "BluetoothGATTReadResponse"; "BluetoothGATTWriteResponse"]);
  ("APIClient.subscribe_home_assistant_states", ["SubscribeHomeAssistantStatesRequest"], ["SubscribeHomeAssistantStateResponse"]);
  ("APIClient.send_home_assistant_state", ["HomeAssistantStateResponse"], []);
  ("APIClient.cover_command", ["CoverCommandRequest"], []);
  ("APIClient.fan_command", ["FanCommandRequest"], []);
  ("APIClient.light_command", ["LightCommandRequest"], []);
  ("APIClient.switch_command", ["SwitchCommandRequest"], []);
  ("APIClient.climate_command", ["ClimateCommandRequest"], []);
  ("APIClient.number_command", ["NumberCommandRequest"], []);
  ("APIClient.date_command", ["DateCommandRequest"], []);
  ("APIClient.time_command", ["TimeCommandRequest"], []);
  ("APIClient.datetime_command", ["DateTimeCommandRequest"], []);
  ("APIClient.select_command", ["SelectCommandRequest"], []);
  ("APIClient.siren_command", ["SirenCommandRequest"], []);
  ("APIClient.button_command", ["ButtonCommandRequest"], []);
  ("APIClient.lock_command", ["LockCommandRequest"], []);
  ("APIClient.valve_command", ["ValveCommandRequest"], []);
  ("APIClient.media_player_command", ["MediaPlayerCommandRequest"], []);
  ("APIClient.text_command", ["TextCommandRequest"], []);
  ("APIClient.update_command", ["UpdateCommandRequest"], []);
  ("APIClient.execute_service", ["ExecuteServiceRequest"], []);
  ("APIClient.request_single_image", ["CameraImageRequest"], []);
  ("APIClient.request_image_stream", ["CameraImageRequest"], []);
  ("APIClient.subscribe_voice_assistant", ["SubscribeVoiceAssistantRequest"; "VoiceAssistantResponse"], ["VoiceAssistantAnnounceFinished"; "VoiceAssistantAudio"; "VoiceAssistantRequest"]);
  ("APIClient.send_voice_assistant_event", ["VoiceAssistantEventResponse"], []);
  ("APIClient.send_voice_assistant_audio", ["VoiceAssistantAudio"], []);
  ("APIClient.send_voice_assistant_timer_event", ["VoiceAssistantTimerEventResponse"], []);
  ("APIClient.send_voice_assistant_announcement_await_response", ["VoiceAssistantAnnounceRequest"], ["VoiceAssistantAnnounceFinished"]);
  ("APIClient.get_voice_assistant_configuration", ["VoiceAssistantConfigurationRequest"], ["VoiceAssistantConfigurationResponse"]);
  ("APIClient.set_voice_assistant_configuration", ["VoiceAssistantSetConfiguration"], []);
  ("APIClient.alarm_control_panel_command", ["AlarmControlPanelCommandRequest"], []);
  ("APIConnection", ["ConnectRequest"; "DisconnectRequest"; "DisconnectResponse"; "GetTimeResponse"; "HelloRequest"; "PingRequest"; "PingResponse"], ["ConnectResponse"; "DisconnectRequest"; "DisconnectResponse"; "GetTimeRequest"; "HelloResponse"; "PingRequest"])
].

(* api_pb2 classes imported by client.py that reach no sink (used in type tests only) *)
Definition client_unaccounted : list string := ["ExecuteServiceArgument"; "VoiceAssistantEventData"].
