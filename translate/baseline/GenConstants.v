(* GENERATED on every run by /verif/translate/GenConstants.py from aioesphomeapi/connection.py, client.py, reconnect_logic.py — do not edit. *)
From Coq Require Import NArith ZArith String List.
Import ListNotations.
Open Scope string_scope.

Open Scope Z_scope.
(* time unit: 1/1024 s *)
Definition UNITS_PER_SECOND : Z := 1024.
Definition DISCONNECT_CONNECT_TIMEOUT : Z := (5120)%Z.
Definition DISCONNECT_RESPONSE_TIMEOUT : Z := (10240)%Z.
Definition HANDSHAKE_TIMEOUT : Z := (30720)%Z.
Definition RESOLVE_TIMEOUT : Z := (30720)%Z.
Definition CONNECT_REQUEST_TIMEOUT : Z := (30720)%Z.
Definition TCP_CONNECT_TIMEOUT : Z := (61440)%Z.
Definition KEEP_ALIVE_FREQUENCY : Z := (20480)%Z.
Definition DEFAULT_BLE_TIMEOUT : Z := (30720)%Z.
Definition DEFAULT_BLE_DISCONNECT_TIMEOUT : Z := (20480)%Z.
Definition EXPECTED_DISCONNECT_COOLDOWN : Z := (5120)%Z.
Definition BLE_NOTIFY_TIMEOUT : Z := (10240)%Z.
Definition BLE_HANDLE_TIMEOUT : Z := (10240)%Z.
Definition KEEP_ALIVE_RATIO_NUM : Z := (9)%Z.
Definition KEEP_ALIVE_RATIO_DEN : Z := (2)%Z.
Definition BACKOFF_BASE_NUM : Z := (9)%Z.
Definition BACKOFF_BASE_DEN : Z := (5)%Z.
Definition BACKOFF_TRIES_CAP : Z := (10)%Z.
Definition BACKOFF_MAX : Z := (60)%Z.
Definition MAXIMUM_BACKOFF_TRIES : Z := (100)%Z.
Definition MAX_SUPPORTED_MAJOR : Z := (2)%Z.
Definition HELLO_API_MAJOR : Z := (1)%Z.
Definition HELLO_API_MINOR : Z := (10)%Z.
Definition BLE_REQ_CLEAR_CACHE : Z := (6)%Z.
Definition BLE_REQ_CONNECT : Z := (0)%Z.
Definition BLE_REQ_CONNECT_V3_WITHOUT_CACHE : Z := (5)%Z.
Definition BLE_REQ_CONNECT_V3_WITH_CACHE : Z := (4)%Z.
Definition BLE_REQ_DISCONNECT : Z := (1)%Z.
Definition BLE_REQ_PAIR : Z := (2)%Z.
Definition BLE_REQ_UNPAIR : Z := (3)%Z.
Definition BLE_FEATURE_REMOTE_CACHING : Z := (4)%Z.
