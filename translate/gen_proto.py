"""api.proto / api_options.proto text (own small parser) -> coq/Generated/GenProto.v
and compiled descriptors (api_pb2 / api_options_pb2) -> coq/Generated/GenDescriptors.v,
both in the same shape so that Coq can prove them equal."""
import re

from .util import PKG, TranslationError, coq_N, coq_Z, coq_bool, coq_list, coq_string, write

SCALARS = {"double", "float", "int32", "int64", "uint32", "uint64", "sint32", "sint64", "fixed32",
           "fixed64", "sfixed32", "sfixed64", "bool", "string", "bytes"}
SOURCES = {"SOURCE_BOTH": 0, "SOURCE_SERVER": 1, "SOURCE_CLIENT": 2}


def strip_comments(txt):
    txt = re.sub(r"/\*.*?\*/", " ", txt, flags=re.S)
    return re.sub(r"//[^\n]*", " ", txt)


def tokenize(txt):
    return re.findall(r'"[^"]*"|[A-Za-z_][\w.]*|-?\d+|[{}()\[\]=;,<>]', strip_comments(txt))


class P:
    def __init__(self, toks):
        self.t, self.i = toks, 0

    def peek(self):
        return self.t[self.i] if self.i < len(self.t) else None

    def next(self):
        tok = self.peek()
        self.i += 1
        return tok

    def expect(self, x):
        tok = self.next()
        if tok != x:
            raise TranslationError(f"proto parser: expected {x!r}, got {tok!r} at token {self.i}")

    def skip_block(self):
        self.expect("{")
        depth = 1
        while depth:
            tok = self.next()
            if tok is None:
                raise TranslationError("proto parser: unbalanced braces")
            depth += tok == "{"
            depth -= tok == "}"


def parse_proto(txt):
    p = P(tokenize(txt))
    messages, enums = [], []
    while p.peek() is not None:
        tok = p.next()
        if tok in ("syntax", "import"):
            while p.next() != ";":
                pass
        elif tok in ("service", "extend"):
            if tok == "extend":
                p.next()
            else:
                p.next()
            p.skip_block()
        elif tok == "enum":
            name = p.next()
            p.expect("{")
            vals = []
            while p.peek() != "}":
                vname = p.next()
                if vname == "option":
                    raise TranslationError(f"enum option in {name} not supported")
                p.expect("=")
                vals.append((vname, int(p.next())))
                if p.peek() == "[":
                    raise TranslationError(f"enum value options in {name} not supported")
                p.expect(";")
            p.expect("}")
            enums.append((name, vals))
        elif tok == "message":
            name = p.next()
            p.expect("{")
            mid, src, fields = 0, 0, []
            while p.peek() != "}":
                t = p.next()
                if t == "option":
                    p.expect("(")
                    oname = p.next()
                    p.expect(")")
                    p.expect("=")
                    val = p.next()
                    p.expect(";")
                    if oname == "id":
                        mid = int(val)
                    elif oname == "source":
                        if val not in SOURCES:
                            raise TranslationError(f"unknown source {val} in {name}")
                        src = SOURCES[val]
                    elif oname not in ("no_delay", "ifdef", "log"):
                        raise TranslationError(f"unknown message option {oname} in {name}")
                    continue
                if t in ("message", "enum", "oneof", "map", "reserved", "extensions", "optional", "required"):
                    raise TranslationError(f"construct {t!r} inside message {name} not supported")
                repeated = False
                if t == "repeated":
                    repeated = True
                    t = p.next()
                ftype, fname = t, p.next()
                p.expect("=")
                num = int(p.next())
                if p.peek() == "[":
                    while p.next() != "]":
                        pass
                p.expect(";")
                fields.append((fname, num, ftype, repeated))
            p.expect("}")
            messages.append((name, mid, src, fields))
        else:
            raise TranslationError(f"proto parser: unexpected top-level token {tok!r}")
    return messages, enums


def from_descriptors():
    import importlib
    import sys
    sys.path.insert(0, str(PKG.parent))
    api_pb2 = importlib.import_module("aioesphomeapi.api_pb2")
    opt = importlib.import_module("aioesphomeapi.api_options_pb2")
    from google.protobuf.descriptor import FieldDescriptor as FD
    tnames = {getattr(FD, "TYPE_" + s.upper()): s for s in SCALARS}
    out_m, out_e = [], []
    for fd in (api_pb2.DESCRIPTOR, opt.DESCRIPTOR):
        for name, md in fd.message_types_by_name.items():
            o = md.GetOptions()
            mid = o.Extensions[opt.id]
            src = o.Extensions[opt.source]
            fields = []
            for f in md.fields:
                if f.type == FD.TYPE_ENUM:
                    ty = f.enum_type.name
                elif f.type == FD.TYPE_MESSAGE:
                    ty = f.message_type.name
                elif f.type in tnames:
                    ty = tnames[f.type]
                else:
                    raise TranslationError(f"descriptor field type {f.type} in {name}.{f.name}")
                fields.append((f.name, f.number, ty, bool(getattr(f, "is_repeated", None) if hasattr(f, "is_repeated") else f.label == FD.LABEL_REPEATED)))
            if md.nested_types or md.enum_types or md.oneofs:
                raise TranslationError(f"nested declarations in descriptor {name}")
            out_m.append((name, mid, src, fields))
        for name, ed in fd.enum_types_by_name.items():
            out_e.append((name, [(v.name, v.number) for v in ed.values]))
    return out_m, out_e


def emit(prefix, messages, enums):
    messages = sorted(messages)
    enums = sorted(enums)
    body = "From Verif Require Import Model.Schema.\n\n"
    ms = []
    for name, mid, src, fields in messages:
        fs = coq_list((f"mkField {coq_string(fn)} {coq_N(num)} {coq_string(ty)} {coq_bool(rep)}"
                       for fn, num, ty, rep in fields), per_line=0)
        ms.append(f"mkMsg {coq_string(name)} {coq_N(mid)} {coq_N(src)} {fs}")
    body += f"Definition {prefix}_messages : list msg := " + coq_list(ms) + ".\n\n"
    es = []
    for name, vals in enums:
        vs = coq_list((f"({coq_string(v)}, {coq_Z(n)})" for v, n in vals), per_line=0)
        es.append(f"mkEnum {coq_string(name)} {vs}")
    body += f"Definition {prefix}_enums : list enum := " + coq_list(es) + ".\n"
    return body


def extract_proto():
    m1, e1 = parse_proto((PKG / "api.proto").read_text())
    m2, e2 = parse_proto((PKG / "api_options.proto").read_text())
    return m1 + m2, e1 + e2


def generate():
    m, e = extract_proto()
    a = write("GenProto", "aioesphomeapi/api.proto, api_options.proto", emit("proto", m, e))
    dm, de = from_descriptors()
    b = write("GenDescriptors", "aioesphomeapi/api_pb2.py, api_options_pb2.py (compiled descriptors)", emit("desc", dm, de))
    return a or b
