#!/bin/sh
# Refresh translate/baseline (the translator outputs for the pinned tree) - run on the unchanged /repo only.
set -e
cd "$(dirname "$0")/.."
test -z "$(git -C /repo status --porcelain)" || { echo "/repo is not clean"; exit 1; }
/venv/bin/python -m translate.all --strict
cp coq/Generated/*.v translate/baseline/
echo refreshed
