#!/venv/bin/python
"""Record the ordered private attribute names of the classes the harnesses look into (run on the pinned tree; committed)."""
import importlib, inspect, json, sys
sys.path.insert(0, "/verif"); sys.path.insert(0, sys.argv[1] if len(sys.argv) > 1 else "/repo")
from vlib import privnames
MODULES = ["aioesphomeapi.connection", "aioesphomeapi.client", "aioesphomeapi.client_base", "aioesphomeapi.reconnect_logic", "aioesphomeapi.zeroconf",
           "aioesphomeapi._frame_helper.base", "aioesphomeapi._frame_helper.plain_text", "aioesphomeapi._frame_helper.noise",
           "aioesphomeapi.host_resolver", "aioesphomeapi.log_runner"]
out = {}
for m in MODULES:
    try:
        mod = importlib.import_module(m)
    except ImportError:
        continue
    funcs = privnames.module_funcs(mod)
    if funcs:
        out[f"module:{m}"] = funcs
    for _, k in inspect.getmembers(mod, inspect.isclass):
        if k.__module__ == m:
            names = privnames.own_names(k)
            if names:
                out[f"{k.__module__}.{k.__qualname__}"] = names
            meths = privnames.own_methods(k)
            if meths:
                out[f"{k.__module__}.{k.__qualname__}#methods"] = meths
privnames.BASELINE_FILE.write_text(json.dumps(out, indent=1) + "\n")
print({k: len(v) for k, v in out.items()})
