#!/venv/bin/python
"""Behaviour-preserving refactorings (produced by independent sub-agents, /verif/harmless/<id>/patch.diff): apply each to /repo,
run EVERY quick check, undo. A check that exits non-zero on one of them is a false alarm (or, for a translator / correspondence that
could not follow the rewrite, a `no-failing-input-found` report) - recorded in harmless/<id>/meta.json."""
import json, subprocess, sys, shutil
from pathlib import Path

SRC = Path("/tmp/mut/out")
DST = Path("/verif/harmless")


def sh(cmd, cwd=None, timeout=3000):
    p = subprocess.run(cmd, shell=True, cwd=cwd, stdout=subprocess.PIPE, stderr=subprocess.STDOUT, text=True, timeout=timeout)
    return p.returncode, "\n".join(l for l in p.stdout.splitlines() if not l.startswith("WARNING conda"))


def main():
    only = [a for a in sys.argv[1:] if not a.startswith("--")]
    checks = next((a.split("=", 1)[1].replace(",", " ") for a in sys.argv[1:] if a.startswith("--checks=")), None)   # limit the checks run (meta.json is then merged, not replaced)
    assert sh("git -C /repo status --porcelain")[1].strip() == "", "/repo is not clean"
    DST.mkdir(exist_ok=True)
    # import new candidates
    for pdir in sorted(SRC.glob("C??")):
        for r in sorted(pdir.glob("r?")):
            name = f"{pdir.name}-{r.name}"
            d = DST / name
            if (r / "patch.diff").exists() and not d.exists():
                d.mkdir(parents=True)
                shutil.copy(r / "patch.diff", d / "patch.diff")
                if (r / "notes.md").exists():
                    shutil.copy(r / "notes.md", d / "notes.md")
    for d in sorted(DST.glob("C??-r?")):
        if only and d.name not in only and d.name.split("-")[0] not in only:
            continue
        rc, out = sh(f"git -C /repo apply {d/'patch.diff'}")
        if rc != 0:
            print(d.name, "APPLY FAILED", out[-200:])
            continue
        try:
            rc, out = sh(("VERIF_ONLY='%s' " % checks if checks else "") + "sh tools/runall.sh quick", cwd="/verif")
            res = {}
            for line in out.splitlines():
                parts = line.split()
                if len(parts) >= 2 and parts[1].startswith("exit="):
                    res[parts[0]] = {"exit": int(parts[1][5:]), "line": " ".join(parts[2:])[:260]}
        finally:
            sh("git -C /repo checkout -- .")
        alarms = {p: r for p, r in res.items() if r["exit"] != 0}
        if checks and (d / "meta.json").exists():
            old = json.loads((d / "meta.json").read_text())
            merged = {p: r for p, r in (old.get("alarms") or {}).items() if p not in res}
            merged.update(alarms)
            alarms = merged
            res = {**{p: None for p in old.get("checks_run", [])}, **res}
        (d / "meta.json").write_text(json.dumps({"id": d.name, "files": sh(f"grep '^+++ ' {d/'patch.diff'}")[1].split(), "checks_run": sorted(res), "alarms": alarms}, indent=1))
        print(d.name, "alarms:", json.dumps(alarms)[:600] if alarms else "none", flush=True)


main()
