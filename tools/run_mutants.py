#!/venv/bin/python
"""Apply each confirmed seeded change to /repo, run the named property's quick check (and optionally others), undo.
usage: tools/run_mutants.py [Cxx-mN | Cxx ...] [--also C05,C08]"""
import json, subprocess, sys, time
from pathlib import Path

SEEDED = Path("/verif/seeded")


def sh(cmd, cwd=None, timeout=3000):
    p = subprocess.run(cmd, shell=True, cwd=cwd, stdout=subprocess.PIPE, stderr=subprocess.STDOUT, text=True, timeout=timeout)
    return p.returncode, "\n".join(l for l in p.stdout.splitlines() if not l.startswith("WARNING conda"))


def main():
    args = [a for a in sys.argv[1:] if not a.startswith("--")]
    also = []
    for a in sys.argv[1:]:
        if a.startswith("--also="):
            also = a.split("=", 1)[1].split(",")
    assert sh("git -C /repo status --porcelain")[1].strip() == "", "/repo is not clean"
    for d in sorted(SEEDED.glob("C??-m*")):
        if args and d.name not in args and d.name.split("-")[0] not in args:
            continue
        meta = json.loads((d / "meta.json").read_text())
        props = [meta["property"]] + also
        rc, out = sh(f"git -C /repo apply {d/'patch.diff'}")
        if rc != 0:
            print(d.name, "APPLY FAILED", out[-200:])
            continue
        res = {}
        try:
            for p in props:
                if not Path(f"/verif/checks/{p.lower()}.py").exists():
                    res[p] = "no check yet"
                    continue
                t0 = time.time()
                rc, out = sh(f"./check {p} --tier quick", cwd="/verif")
                lines = [l for l in out.splitlines() if l.startswith(("VIOLATION", "KNOWN", "OK ", "CHECK-BROKEN", "# "))]
                res[p] = {"exit": rc, "lines": lines[:6], "wall": round(time.time() - t0, 1)}
        finally:
            sh("git -C /repo checkout -- .")
        meta["detected_by"] = {p: r for p, r in res.items()}
        (d / "meta.json").write_text(json.dumps(meta, indent=1))
        print(d.name, json.dumps(res), flush=True)


main()
