#!/bin/sh
# Independent re-check of the compiled development with coqchk; prints the axioms it relies on (-o).
# usage: tools/coqchk.sh [Module ...]   (default: every Properties file)   output: _build/coqchk.log
cd "$(dirname "$0")/../coq" || exit 2
mods="$*"
if [ -z "$mods" ]; then
  mods=$(ls Properties/C*.v | sed 's#/#.#; s#\.v$##; s#^#Verif.#')
fi
mkdir -p ../_build
timeout 3000 coqchk -silent -o -Q . Verif $mods > ../_build/coqchk.log 2>&1
rc=$?
grep -v "^WARNING conda" ../_build/coqchk.log | tail -40
exit $rc
