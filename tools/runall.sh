#!/bin/sh
# run every claimed check (quick tier by default) on /repo as it is, in parallel; print one line per property
cd "$(dirname "$0")/.."
TIER=${1:-quick}
ids=${VERIF_ONLY:-$(/venv/bin/python -c "import json; print(' '.join(c['property_id'] for c in json.load(open('MANIFEST.json'))['checks']))")}
mkdir -p _build/runall
for p in $ids; do
  ( ./check $p --tier $TIER > _build/runall/$p.log 2>&1; echo "$p exit=$? $(grep -E '^(OK|VIOLATION|KNOWN-FINDING|CHECK-BROKEN)' _build/runall/$p.log | head -3 | tr '\n' ' ' | cut -c1-220)" ) &
done
wait
