#!/venv/bin/python
"""Confirm each candidate seeded change (from /tmp/mut/out) in a scratch worktree: applies cleanly, the unedited suite
still passes (baseline), demo fails with the change and passes without. Confirmed ones are stored under /verif/seeded/."""
import json, os, shutil, subprocess, sys
from pathlib import Path

SRC = Path("/tmp/mut/out")
DST = Path("/verif/seeded")
WT = Path("/tmp/mutv/wt")


def sh(cmd, cwd=None, timeout=900):
    p = subprocess.run(cmd, shell=True, cwd=cwd, stdout=subprocess.PIPE, stderr=subprocess.STDOUT, text=True, timeout=timeout)
    return p.returncode, "\n".join(l for l in p.stdout.splitlines() if not l.startswith("WARNING conda"))


def main():
    only = sys.argv[1:]
    WT.parent.mkdir(parents=True, exist_ok=True)
    if WT.exists():
        sh(f"git -C /repo worktree remove --force {WT}")
    rc, out = sh(f"git -C /repo worktree add -q --detach {WT} HEAD")
    assert rc == 0, out
    results = {}
    try:
        for pdir in sorted(SRC.glob("C??")):
            for m in sorted(pdir.glob("m*")):
                name = f"{pdir.name}-{m.name}"
                if only and name not in only and pdir.name not in only:
                    continue
                patch, demo = m / "patch.diff", m / "demo.py"
                if not patch.exists() or not demo.exists():
                    results[name] = "missing files"
                    continue
                sh("git checkout -q -- . && git clean -fdq", cwd=WT)
                rc0, o0 = sh(f"/venv/bin/python {demo}", cwd=WT, timeout=120)
                rc, out = sh(f"git apply {patch}", cwd=WT)
                if rc != 0:
                    results[name] = "patch does not apply: " + out[-300:]
                    continue
                touched = sh("git diff --name-only", cwd=WT)[1].split()
                rc1, o1 = sh(f"/venv/bin/python {demo}", cwd=WT, timeout=120)
                rct, ot = sh("/venv/bin/python -m pytest -q -p no:cacheprovider --timeout=900 --deselect tests/test_util.py::test_create_eager_task_312 2>&1 | tail -3", cwd=WT)
                sh("git checkout -q -- . && git clean -fdq", cwd=WT)
                tests_ok = " passed" in ot and " failed" not in ot and " error" not in ot
                ok = rc0 == 0 and rc1 != 0 and tests_ok and all(t.startswith("aioesphomeapi/") for t in touched)
                results[name] = {"confirmed": ok, "demo_without": rc0, "demo_with": rc1, "tests": ot.strip().splitlines()[-1] if ot.strip() else "", "files": touched}
                print(name, results[name], flush=True)
                if ok:
                    d = DST / name
                    d.mkdir(parents=True, exist_ok=True)
                    shutil.copy(patch, d / "patch.diff")
                    shutil.copy(demo, d / "demo.py")
                    notes = (m / "notes.md").read_text() if (m / "notes.md").exists() else ""
                    (d / "notes.md").write_text(notes)
                    meta = {"property": pdir.name, "id": name, "files": touched,
                            "needs_to_manifest": "see notes.md (written by the independent sub-agent that seeded the change)",
                            "confirmed_by": "tools/verify_mutants.py in a scratch worktree of /repo HEAD: git apply; unedited pytest suite (test_create_eager_task_312 deselected: fails on the baseline too) -> " + results[name]["tests"] + f"; demo.py exit {rc1} with the change, exit {rc0} without",
                            "detected_by": None}
                    old = d / "meta.json"
                    if old.exists():
                        try:
                            meta["detected_by"] = json.loads(old.read_text()).get("detected_by")
                        except Exception:
                            pass
                    old.write_text(json.dumps(meta, indent=1))
    finally:
        sh(f"git -C /repo worktree remove --force {WT}")
    print(json.dumps(results, indent=1))


main()
