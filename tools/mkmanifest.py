#!/venv/bin/python
"""Regenerate MANIFEST.json from the table below (kept in one place so it stays valid)."""
import json
from pathlib import Path

ROOT = Path(__file__).resolve().parent.parent
COMMON_NOTE = ("Trusted: Coq 8.16.1 kernel (no axioms: every property theorem is Closed under the global context, re-checked on every run), "
               "ExtrOcamlBasic extraction + OCaml driver, the correspondence harness and its generators; pure-Python build only. ")

CLAIMED = {
    "C01": dict(
        text="Coq theorem C01_reassembly (all frame lists x all chunkings, unbounded) about an executable Gallina mirror of plain_text.py/base.py; "
             "the model is tied to the code on every run by differential execution (extracted OCaml vs the real APIPlaintextFrameHelper) and the "
             "property predicate is evaluated directly on the implementation's observations.",
        note=COMMON_NOTE + "Cython fixed-width integers are not modelled.",
        tech="machine-checked proof in Coq (induction over the chunk list, prefix-free framing) + model/implementation correspondence",
        ref="DESIGN.md §5 C01"),
    "C02": dict(
        text="Coq theorems C02_plain_conforms (all packet lists), C02_varint_minimal/bytes (all values), C02_noise_conforms (all AEADs satisfying decrypt(encrypt)=id and a 16-byte tag, "
             "all histories of write calls, consecutive nonces, one write per call), C02_ids_fit (generated registry), C02_noise_oversize_refuted (known finding F9); "
             "specification decoders written independently from the api.proto comment block / Noise framing. Tied to the code by correspondence (extracted writers vs real "
             "write_packets, Noise frames decrypted by an independent responder with its own nonce counter) and APIConnection.send_messages over SimNet for every registered class.",
        note=COMMON_NOTE + "The AEAD is a parameter (section hypothesis: correctness and tag length), real ChaCha20-Poly1305 and protobuf serialisation are trusted. Known finding F9 (payload > 65515 bytes) is listed in known_findings.json.",
        tech="machine-checked proof in Coq (round-trip against an independent spec decoder, induction over write histories) + model/implementation correspondence",
        ref="DESIGN.md §5 C02"),
    "C13": dict(
        text="Coq theorems C13_registry_is_proto / ids_unique_contiguous / descriptors_agree / direction: generic checker-soundness lemmas (proved for all tables) "
             "applied by vm_compute to tables regenerated from core.py, api.proto, the compiled descriptors and client.py/connection.py on every run; complete over the finite tables.",
        note=COMMON_NOTE + "Translators (Python ast, own .proto parser, descriptor walker) are trusted but cross-validated on every run against the live objects and a dynamic API sweep in SimNet.",
        tech="machine-checked proof in Coq by reflection over translator-generated tables + dynamic translator validation",
        ref="DESIGN.md §5 C13"),
}

NOT_YET = "not yet claimed: model and proof under construction (see DESIGN.md §8 implementation order)"


def main():
    checks = []
    for pid, c in sorted(CLAIMED.items()):
        checks.append({
            "property_id": pid,
            "quick_cmd": f"./check {pid} --tier quick",
            "thorough_cmd": f"./check {pid} --tier thorough",
            "evidence_file": f"/verif/evidence/{pid}.json",
            "replay_cmd_template": f"./check {pid} --replay {{path}}",
            "engine": "coq-proof+correspondence",
            "level_claimed": {"category": "proof", "text": c["text"], "design_ref": c["ref"]},
            "level_note": c["note"],
            "technique": c["tech"],
        })
    all_ids = [f"C{i:02d}" for i in range(1, 21)]
    m = {
        "version": 1,
        "setup_cmd": "./setup.sh",
        "hooks": {
            "guard": "AIOESPHOMEAPI_VERIF",
            "enable": "no source hooks are needed: every observation is made from outside (fake transports, virtual-time event loop); the checks set AIOESPHOMEAPI_VERIF=1 for uniformity",
            "baseline_off_cmd": "cd /repo && /venv/bin/python -m pytest -q -p no:cacheprovider --timeout=900",
            "source_commits": [],
            "add_only": True,
        },
        "engines": [{
            "name": "coq-proof+correspondence", "path": "/verif/check",
            "serves_properties": sorted(CLAIMED),
            "kind_free_text": "Coq 8.16.1 proofs about hand-written / translator-generated Gallina models; extracted OCaml model run differentially against the real Python code under a virtual-time event loop",
        }],
        "checks": checks,
        "not_applicable": [{"property_id": p, "reason": NOT_YET} for p in all_ids if p not in CLAIMED],
        "notes": "See DESIGN.md. Fix commits made in /repo are listed in known_findings.json ('fixed:' entries).",
    }
    (ROOT / "MANIFEST.json").write_text(json.dumps(m, indent=1))


if __name__ == "__main__":
    main()
