#!/venv/bin/python
"""Regenerate MANIFEST.json from the table below (kept in one place so it stays valid)."""
import json
from pathlib import Path

ROOT = Path(__file__).resolve().parent.parent
COMMON_NOTE = ("Trusted: Coq 8.16.1 kernel (no axioms: every property theorem is Closed under the global context, re-checked on every run), "
               "ExtrOcamlBasic extraction + OCaml driver, the correspondence harness and its generators; pure-Python build only. ")

CONN_NOTE = (COMMON_NOTE + "Model/Conn.v is a hand-written labelled transition system of connection.py (one label = one event-loop callback or "
             "synchronous user call; the scheduler is not modelled, so theorems cover every interleaving, a superset of asyncio's FIFO order); it is tied to the "
             "code on every run by trace validation: every callback the real APIConnection runs under the virtual-time loop is labelled and replayed on the "
             "extracted model, and projections (state, flags, timers, handler table, waiters, futures) and observations (writes, deliveries, stop calls, task "
             "outcomes, raised exceptions) must agree step by step. The frame helper is abstracted to 'delivers a list of frames per data event' (C01/C03); "
             "payload decoding, the transport and third-party awaits are inputs of the model. ")

CLAIMED = {
    "C01": dict(
        text="Coq theorem C01_reassembly (all frame lists x all chunkings, unbounded) about an executable Gallina mirror of plain_text.py/base.py; "
             "the model is tied to the code on every run by differential execution (extracted OCaml vs the real APIPlaintextFrameHelper) and the "
             "property predicate is evaluated directly on the implementation's observations.",
        note=COMMON_NOTE + "Cython fixed-width integers are not modelled.",
        tech="machine-checked proof in Coq (induction over the chunk list, prefix-free framing) + model/implementation correspondence",
        ref="DESIGN.md §5 C01"),
    "C02": dict(
        text="Coq theorems C02_plain_conforms (all packet lists), C02_varint_minimal/bytes (all values), C02_noise_conforms (all AEADs satisfying decrypt(encrypt)=id and a 16-byte tag, "
             "all histories of write calls, consecutive nonces, one write per call), C02_ids_fit (generated registry), C02_noise_oversize_refuted (known finding F9); "
             "specification decoders written independently from the api.proto comment block / Noise framing. Tied to the code by correspondence (extracted writers vs real "
             "write_packets, Noise frames decrypted by an independent responder with its own nonce counter) and APIConnection.send_messages over SimNet for every registered class.",
        note=COMMON_NOTE + "The AEAD is a parameter (section hypothesis: correctness and tag length), real ChaCha20-Poly1305 and protobuf serialisation are trusted. Known finding F9 (payload > 65515 bytes) is listed in known_findings.json.",
        tech="machine-checked proof in Coq (round-trip against an independent spec decoder, induction over write histories) + model/implementation correspondence",
        ref="DESIGN.md §5 C02"),
    "C03": dict(
        text="Coq theorems C03_segmentation_independent (for EVERY byte stream, honest or not, and EVERY chunking: same events in order, same final protocol state and status as one call), "
             "C03_frames_in_order, C03_honest_session (hello with optional NUL-terminated name, accepted handshake reply, messages under nonces 0,1,2,...: readiness exactly once and before every delivery, "
             "deliveries = the messages in order; a differing announced name: BadName carrying the received name for waiter and connection, nothing delivered) about Model/NoiseFrame.v (mirror of noise.py + base.py). "
             "Tied by running the real helper (real X25519/ChaChaPoly/SHA-256) against an independent responder over fresh handshakes, names, expected-name settings, message lists and chunkings; per call the observations "
             "must equal an oracle computed from frame boundaries, and the extracted model with a symbolic ideal AEAD must produce the same lines for the same cuts.",
        note=COMMON_NOTE + "PARTIAL in one named respect: the AEAD, the Noise handshake object and UTF-8 decoding are parameters of the model; theorems assume decrypt n (enc n p) = Some p as a hypothesis; that the real crypto is a conformant instance is shown by the differential runs (a test).",
        tech="machine-checked proof in Coq (loop-extension lemma by induction on fuel, induction over chunk lists and frame lists) + model/implementation correspondence against an independent Noise responder; partial (ideal AEAD hypothesis)",
        ref="DESIGN.md §5 C03"),
    "C04": dict(
        text="Coq theorems C04_prefix_only (data phase, EVERY sequence of adversarial frames: deliveries are a prefix of what the device sent under consecutive nonces, given the ideal-AEAD hypothesis 'what decrypts under nonce n is what the device sent under n'), "
             "C04_bad_data_frame + C04_raise_kills_transport + C04_dead_transport_ignores (first unauthentic frame: InvalidTag -> invalid-key error, transport dead, nothing later looked at), the seven handshake-phase classifications "
             "(closed, same specific error for connection and readiness waiter, never ready, nothing delivered) and C04_psk_gate. Tied by a corruption sweep with real crypto: every byte of every frame flipped, every truncation, duplicate, drop, swap, "
             "hello/handshake deviations, other key, both framing mismatches, key strings, x three chunkings (exhaustive in thorough: 4600 sessions), judged by an oracle and compared with the extracted model.",
        note=COMMON_NOTE + "PARTIAL in one named respect: unforgeability is a hypothesis of the theorems (real ChaCha20-Poly1305 meets it only computationally). Runs whose corruption hits a length field are judged by the oracle only (ciphertext byte values are not represented in the symbolic stream).",
        tech="machine-checked proof in Coq (induction over adversarial frame lists under an ideal-AEAD hypothesis; case analysis of the handshake handlers) + exhaustive single-corruption sweep against the real helper; partial (ideal AEAD hypothesis)",
        ref="DESIGN.md §5 C04"),
    "C05": dict(
        text="Coq theorems C05_state_forward (for every reachable state and every label: the visible state moves only INIT->SOCK->HS->CONNECTED or to CLOSED, never leaves CLOSED, "
             "is_connected/handshake_complete are functions of the state), C05_runs_monotone (all runs), C05_start_guard/finish_guard/start_accepted_once (single use) about Model/Conn.v, "
             "proved by an inductive invariant preserved by all 27 label kinds (Proofs/ConnStep*.v); model tied to connection.py by trace validation on every run; the transition relation "
             "is also evaluated on the implementation's state sampled after every event-loop callback.",
        note=CONN_NOTE, tech="machine-checked proof in Coq (inductive invariant over all label sequences = all interleavings) + trace validation against the real APIConnection",
        ref="DESIGN.md §5 C05"),
    "C07": dict(
        text="Coq theorems about Model/Conn.v: C07_stop_exactly_once (in every reachable state the history of on_stop calls has at most one entry, exactly one iff the connection was ever CONNECTED and is CLOSED), "
             "C07_no_second_stop (from a closed state no transition calls it again); the ARGUMENT, over all runs: C07_true_only_if_initiated(_before) (a call with true is preceded or made by force_disconnect, disconnect() or a chunk "
             "carrying a DisconnectRequest frame), C07_flag_up_then_true (the expected-disconnect flag is never lowered; from any reachable state in which it is up every later call has argument true), C07_false_means_flag_never_up, and what raises the flag: "
             "C07_force_initiates, C07_disconnect_initiates, C07_disconnect_wait_over_initiates, C07_disconnect_request_initiates (any reachable state with a complete handshake; C07_disconnect_handler_registered). "
             "Tied by trace validation; the count/timing/reason predicate is evaluated on the implementation's traces with an oracle derived from the labels.",
        note=CONN_NOTE + "The label-based oracle on the implementation is a test; the theorems are about the model it is validated against.",
        tech="machine-checked proof in Coq (inductive invariant with ghost history of stop calls; per-label relation on the flag, the stop history and the internal handler entries, Proofs/ConnReason.v) + trace validation against the real APIConnection",
        ref="DESIGN.md §5 C07, §9.1"),
    "C08": dict(
        text="Coq theorems C08_closed_released (every reachable closed state: keepalive/pong timers cancelled, waiter set empty, socket released, helper released or about to be, flags down) and "
             "C08_closed_is_silent (from a closed state no label - data, timers, wake-ups, user calls - produces a write of application messages, a subscriber delivery or a stop call, and the state stays closed) "
             "about Model/Conn.v; no coroutine stays blocked, over all runs: C08_pending_call_is_waiter, C08_closed_no_pending_call, C08_closed_call_task_resumes (invariant PW, Proofs/ConnUnblock.v: a closed connection has no pending call future and every task awaiting a call has its wake-up enabled), "
             "C08_closed_start_interruptible, C08_closed_finish_interruptible, C08_closed_disconnect_wait_released (invariant CK2, Proofs/ConnKick.v: the interrupt callback of a still-suspended connect coroutine is enabled or has fired; the wait of disconnect() is over or releasable). "
             "Tied by trace validation; on the implementation the same clauses are evaluated after every callback, plus an audit of the loop's timer heap and the connection's tasks at quiescent points after the close.",
        note=CONN_NOTE + "Partial in one named respect: OS-level release of the socket is observed on a fake socket only. Request timers after the close are covered through C11 (the wake-up that ends a call leaves no timer) and the task audit on the implementation.",
        tech="machine-checked proof in Coq (inductive invariants over all 35 labels: released resources, closed-state silence, pending-call-is-waiter, interrupt blocks) + trace validation and resource audit against the real APIConnection",
        ref="DESIGN.md §5 C08"),
    "C06": dict(
        text="Coq theorems C06_accept_iff (the hello/login decision accepts exactly: HelloResponse first with major <= 2 read from the source, name empty/expected or no expected name, and when login is on a ConnectResponse next without invalid_password), "
             "C06_incompatible_version / bad_name / invalid_auth (specific errors), C06_success_only_if_accepted (finish_connection returns normally only through an accepted decision, uncancelled, not closed meanwhile, ending CONNECTED), "
             "C06_no_stop_unless_connected. Tied by an exhaustive sweep (thorough; sampled in quick) of versions x names x configurations x response orders x chunkings x password set/unset on the real APIConnection with trace validation, "
             "and of server-hello name x HelloResponse name x configuration over real Noise sessions with an independent responder; outcomes are judged by an oracle computed from the inputs alone.",
        note=CONN_NOTE + "The name carried by BadNameAPIError and the Noise-level name check are checked on the implementation only (the model abstracts names to empty/expected/other).",
        tech="machine-checked proof in Coq (decision function characterised by an iff; case analysis of every exit of finish_connection) + exhaustive configuration sweep with trace validation",
        ref="DESIGN.md §5 C06"),
    "C09": dict(
        text="Coq theorems: C09_every_outcome_classified (in EVERY run from the initial state every task outcome - start_connection, finish_connection, disconnect, any request/response call - is the result, an error of the library hierarchy, "
             "or a cancellation, and a cancellation only ever ends disconnect() or a call), C09_connect_phases_never_cancelled, C09_reachable_futures_classified (invariant: call futures hold only the result, asyncio's time-out, a library error or a cancellation), "
             "C09_cancellation_only_by_caller (such a cancellation only when the caller had cancelled that very operation: ghost flag set by the LCancel label alone; invariant C09_awaited_call_owned tying every awaited call to the one task that awaits it), "
             "C09_wrapper_always_library, C09_start_classified, C09_finish_failure_classified, C09_call_outcome, "
             "C09_first_cause_kept, C09_waiters_get_first_cause (all pending waiters receive the error derived from the first fatal cause), C09_start_arms_timer, C09_time_respects_deadlines, C09_documented_bounds (30/60/30/30/5/10 s read from the source). "
             "No await is unguarded, over all runs (invariant GA, Proofs/ConnGuard.v): C09_every_await_guarded, C09_no_unguarded_await (every suspended coroutine is resumable now, or an armed deadline stands behind what it awaits, or it waits for connection_made), "
             "C09_ready_task_resumes, C09_reached_deadline_fires, C09_connection_made_arrives; bounds over all runs (Proofs/ConnBound.v): C09_phase_deadlines_bounded, C09_call_timers_exact. "
             "PARTIAL: that a resumable task IS resumed and a due timer IS fired promptly is asyncio's scheduling (no fairness in the model), so the closed-form bound of a whole operation is not one theorem about runs; it is checked on the implementation at every quiescent point under the virtual clock together with a never-hangs audit.",
        note=CONN_NOTE + "Awaits inside third-party libraries (aiohappyeyeballs, zeroconf, getaddrinfo) are inputs that may complete with any outcome or never.",
        tech="machine-checked proof in Coq (invariants over all 35 labels: call table, call/task ownership, guarded awaits, deadline bounds - Proofs/ConnOutcome.v, ConnCancel.v, ConnGuard.v, ConnBound.v; case analysis of every task exit; first-cause lemmas) + trace validation, completion-time and hang audit on the real APIConnection; partial (the scheduler's promptness, hence the closed-form bound of a whole operation, is tested, not proved)",
        ref="DESIGN.md §5 C09, §9.1"),
    "C10": dict(
        text="Coq theorems C10_ping_iff_idle, C10_dead_exactly (death exactly 4.5K after the first ping since the last message, hence between 5.5K and 6.5K after the last message), C10_obs_sources, C10_arrival_disarms, C10_all_runs about Model/Keepalive.v: "
             "a mirror of the keepalive trio for ARBITRARY K = 2h and the ratio read from the source, with an inductive invariant over every event sequence (arrivals, both timers, time moving up to the next deadline). "
             "Tied by running the extracted scheduler and the real APIConnection under the virtual clock on the same arrival schedules (7 keepalive values, grids, tick/deadline edges, chatty and silent peers); both must equal a closed-form oracle.",
        note=COMMON_NOTE + "Exact virtual time (multiples of 2^-10 s) instead of float loop time; arrivals exactly at a timer instant are excluded from the differential runs (the model serves arrivals first).",
        tech="machine-checked proof in Coq (inductive invariant with ghost history, linear arithmetic) + model/implementation correspondence on timestamps",
        ref="DESIGN.md §5 C10"),
    "C11": dict(
        text="Coq theorems C11_collects (for ANY message stream the call holds the accepted messages in arrival order up to and including the first stop message, done iff a stop message arrived), C11_done_ignores_later, "
             "C11_handler_is_call_step, C11_no_interference, C11_finally_always_runs, C11_finally_leaves_nothing (no handler, waiter or timer), C11_outcome, C11_time_respects_deadlines, C11_timeout_due_iff about Model/Conn.v; "
             "over ALL runs (Proofs/ConnLeak.v, relation R preserved by all 35 labels): C11_call_leaves_nothing (the wake-up that ends a call - result, time-out, cancellation, connection error - leaves no handler, waiter or timer of it, and none ever returns), "
             "C11_unsent_call_registers_nothing, C11_hello_call_leaves_nothing, C11_disconnect_call_leaves_nothing, C11_resources_only_shrink, C11_call_handlers_typed, C11_timeout_exactly_at_its_timeout (an armed call timer is exactly sent + time-out). "
             "Tied by trace validation; per call the result list / error class / timeout instant are judged on the implementation by an oracle from the labels, with a handler/timer/waiter leftover audit at every quiescent point.",
        note=CONN_NOTE, tech="machine-checked proof in Coq (induction over the message stream; finally-block lemmas; leak-freedom and timer exactness as invariants over all runs) + trace validation and leftover audit on the real APIConnection",
        ref="DESIGN.md §5 C11"),
    "C12": dict(
        text="Coq theorems C12_known_type_dispatched (deliveries of one packet = the subscribers in the snapshot of the handler table at dispatch start, each once, whatever re-entrant scripts do), "
             "C12_dispatch_prefix_on_error, C12_unknown_type_ignored + C12_registered_iff (every type number outside 1..n, unbounded, has no effect), C12_bad_payload_closes (protocol error, first cause kept, nothing delivered), "
             "C12_ping/time/disconnect answered about process_packet of Model/Conn.v with the registry regenerated from core.py. Tied by trace validation (re-entrant subscriber scripts, ids 0/n/n+1/65535/2^40, bad payloads with and without subscribers).",
        note=CONN_NOTE + "Payload validity is an input flag of the model (protobuf parsing is trusted).",
        tech="machine-checked proof in Coq (induction over the handler snapshot) + trace validation against the real APIConnection",
        ref="DESIGN.md §5 C12"),
    "C13": dict(
        text="Coq theorems C13_registry_is_proto / ids_unique_contiguous / descriptors_agree / direction: generic checker-soundness lemmas (proved for all tables) "
             "applied by vm_compute to tables regenerated from core.py, api.proto, the compiled descriptors and client.py/connection.py on every run; complete over the finite tables.",
        note=COMMON_NOTE + "Translators (Python ast, own .proto parser, descriptor walker) are trusted but cross-validated on every run against the live objects and a dynamic API sweep in SimNet.",
        tech="machine-checked proof in Coq by reflection over translator-generated tables + dynamic translator validation",
        ref="DESIGN.md §5 C13"),
    "C14": dict(
        text="Coq theorems C14_enums_mirror (every model enum paired with a wire enum - pairing derived from the converters and from equal names - has exactly the wire (name, value) pairs modulo the enum prefix and no aliases; "
             "known finding UpdateCommand excluded, C14_update_command_refuted), C14_fields_mirror (every paired model class has exactly the wire message's field names), both by generic checkers with soundness proved for all tables, applied by vm_compute to tables regenerated on every run; "
             "C14_from_pb_total / C14_enum_known / C14_enum_unknown / C14_enum_list (conversion total, each field by its converter kind), C14_fix_zero / C14_fix_sign / C14_decimal_rounding / C14_decimal_exponent about an exact model of the float presentation function, "
             "C14_dict_roundtrip_partial (to_dict/from_dict round-trips the image of from_pb given idempotent converters). Tied by correspondence: random/boundary wire messages of all 48 paired types through the real from_pb/to_dict/from_dict vs the extracted model and an independent oracle; fix_float bit-exact on float32 inputs.",
        note=COMMON_NOTE + "The translator introspects the imported modules of /repo (enum members, dataclass fields, converter identities, descriptors) and fails closed on an unknown converter kind. PARTIAL in one named respect: idempotence of the float presentation function is a hypothesis of the round-trip theorem, tested bit-exactly on the implementation (not proved); math.log10/round are represented by their mathematical definitions. Known finding F7 (UpdateCommand.INSTALL) is listed in known_findings.json.",
        tech="machine-checked proof in Coq by reflection over translator-generated tables (generic checkers + soundness lemmas), theorems about an executable conversion and exact float model + bit-exact correspondence",
        ref="DESIGN.md §5 C14"),
    "C15": dict(
        text="Coq theorems C15_all_commands_wf (every *_command method except the two listed passes the static checks; IR regenerated from client.py by a fail-closed ast translator on every run) and C15_wf_sound (for every well-formed command, EVERY environment - every subset of supplied/omitted arguments, every value incl. 0, 0.0, False, '' - and every API version: "
             "an omitted optional argument leaves all fields of its block default, a supplied one puts its value / tuple component / whole milliseconds into each field of its block with the presence flag true, unmentioned fields stay default), C15_lock_code_flag_refuted (known finding F6), "
             "C15_round_half_unit, and the legacy encodings as decision tables over the generated IR (cover below 1.1, climate away preset below 1.5). The translator is validated on every run: every command x argument subsets x value classes x API versions on the real APIClient, written frame decoded with api_pb2 and compared with exec of the IR and an oracle; execute_service field table by argument type and version.",
        note=COMMON_NOTE + "float32 narrowing of float fields is protobuf's (values are compared after narrowing). Known finding F6 (lock_command never sets has_code) is listed in known_findings.json.",
        tech="machine-checked proof in Coq (locality of disjoint statement blocks; reflection over the translated IR) + exhaustive argument-subset correspondence validating the translator",
        ref="DESIGN.md §5 C15"),
    "C16": dict(
        text="Coq theorems about Model/Ble.v (the filters of client_callbacks.py, the outcome table of _send_bluetooth_message_await_response, and every Bluetooth operation of client.py - read, read descriptor, write, write descriptor, notify, pair, unpair, clear cache, disconnect, get services, connect - as a state machine over device messages, time, cancellation and unsubscribe calls): "
             "C16_first_own_message_decides / C16_result_carries_own_address_and_handle / C16_nothing_own_stays_pending (outcome table), C16_other_address_is_foreign / C16_other_handle_is_foreign / C16_foreign_messages_irrelevant / C16_no_cross_talk / C16_notify_data_own_only (filters), "
             "C16_foreign_event_ignored (every operation, every phase: a foreign event changes nothing and produces nothing), C16_others_do_not_matter (for EVERY event sequence an operation's observations are the same with or without the other operations), C16_handle_op_refines (the machine computes the table), "
             "C16_connect_waits_until_deadline / C16_connect_timeout_disconnects_first / C16_after_timeout_only_the_error (unsubscribe, disconnect for that address, then only the time-out error, never a state callback), "
             "C16_reachable_well_formed / C16_done_means_unsubscribed / C16_finished_is_inert / C16_unsubscribe_is_immediate (nothing left subscribed). BLE request types, the REMOTE_CACHING bit and default time-outs are re-read from the source on every run. "
             "Tied by concurrent stories on the real APIClient over SimNet under a virtual clock: after every step the frames written, every coroutine's outcome, every callback and the handlers registered on the connection must equal the extracted model's; the property predicate (first own message decides at its own step, connect time-out order, nothing left subscribed) is computed from the story alone and evaluated on the implementation.",
        note=COMMON_NOTE + "The request/response machinery underneath (registration before the write, handler removal in every ending) is C11's; connection loss during a Bluetooth operation is C09/C11's. Iteration order of handlers of one message type (a Python set) is abstracted: observations are compared per operation. Fixed defect: cancelled start_notify left its data callback registered (repo commit dd00f32).",
        tech="machine-checked proof in Coq (case analysis of the operation machines, non-interference by induction over event sequences) + model/implementation correspondence on concurrent stories under a virtual clock",
        ref="DESIGN.md §5 C16"),
    "C17": dict(
        text="Coq theorems about Model/Subs.v (on_state_msg with the per-subscription camera buffer, the subscribe_* wrappers and their unsubscribe closures, subscribe_voice_assistant with its start task): "
             "C17_state_message_one_callback / C17_one_callback_per_state_message (for every message list: exactly one callback per state message, its type and values, in order), "
             "C17_camera_reassembly_per_key / C17_camera_reassembly_fresh (for EVERY interleaving of chunk streams of any number of keys with any other messages, the images completed for a key are the concatenations of that key's chunks since its previous completion, by induction with the buffer invariant), "
             "C17_other_subscriptions_one_call (logs, service calls, home-assistant states incl. the once/request split, advertisements, raw advertisements, connections-free, voice-assistant stop/audio/announce), "
             "C17_va_start_calls_handler / C17_va_start_answered / C17_va_answered_at_most_once / C17_va_unsub_cancels_latest / C17_va_invariant_all_runs (a start is answered with the port its handler returned or an error response, once; overlapping starts each get their answer; the start in flight is cancelled by unsubscribe and never answered), "
             "C17_unsubscribe_is_immediate / C17_no_callback_after_unsubscribe (no handler call after the unsubscribe function returned, for every later event sequence), C17_other_id_ignored. "
             "Tied by stories on the real APIClient over SimNet: 1-7 subscriptions side by side, all 21 state types with every scalar field set (class and field values of every callback checked against the message), interleaved camera streams over up to 4 keys (empty and single-chunk images included), voice-assistant requests whose handlers return / fail at once or later or are cancelled, unsubscribe calls at every point; per step handler calls and frames written must equal the extracted model's and the property predicate is computed from the story alone.",
        note=COMMON_NOTE + "The message -> model object conversion is C14's (here the callback's class and field values are compared with the message), dispatch is C12's. Order of handler calls between different subscriptions of one message type (a Python set) is abstracted: calls are compared per subscription. The flag value sent for API audio is model.py's (4; api.proto's enum says 1 - outside C17, recorded in DESIGN.md).",
        tech="machine-checked proof in Coq (induction over message lists with the camera-buffer invariant; case analysis of the subscription machines) + model/implementation correspondence on subscription stories",
        ref="DESIGN.md §5 C17"),
    "C18": dict(
        text="Coq theorems about Model/Reconnect.v (labelled transition system of reconnect_logic.py over a client with adversarial attempt outcomes, inductive invariant preserved by all 8 label kinds): C18_one_attempt_at_a_time (for every history at most one client connect call in flight, exactly while CONNECTING/HANDSHAKING), "
             "C18_backoff_spec / C18_backoff_capped (wait after the n-th failure = min(round(1.8^n), 60) s for EVERY n >= 1, the exponent cap is invisible; 60 s after auth errors), C18_failure_schedules_backoff, C18_unexpected_end_retries_at_once, C18_expected_end_cools_down (exactly 5 s), C18_timer_exact, C18_time_respects_timer, "
             "C18_record_ignored_when_connected / C18_record_triggers_attempt_when_waiting, C18_callbacks_alternate (+ shape), C18_stopped_stays_quiet (after stop() returned: no attempt, no listener, no timer until start()). The back-off expression and constants are re-read from the source on every run. "
             "Tied by adaptive random histories on the real ReconnectLogic (stub client, fake zeroconf, virtual clock): per event the observations and state must equal the extracted model's; the property predicate (causes and times of every attempt with an independent failure count, alternation, in-flight count, stop) is evaluated on the implementation.",
        note=COMMON_NOTE + "User callbacks return at once and start() is not issued while the connect task holds the lock (the general case with slow callbacks is not modelled); the stub client mirrors APIClient's refusal of a second session. Attempt timing under real network delays is outside the model.",
        tech="machine-checked proof in Coq (inductive invariant by exhaustive case analysis over the finite control state, arithmetic of the back-off function for all n) + model/implementation correspondence under a virtual clock",
        ref="DESIGN.md §5 C18"),
    "C19": dict(
        text="Coq theorems C19_start_accepted_iff_free, C19_refused_start_is_noop, C19_accepted_start_is_fresh, C19_command_refused / C19_request_refused (no live authenticated session: connection error, nothing written, nothing changed), "
             "C19_endings_clear / C19_forced_disconnect_clears (stop hook, failed connect phase, returned disconnect() clear the client's reference in the same callback), and - for EVERY sequence of client calls and connection events from a fresh client - "
             "C19_never_wedged (a closed connection with neither connect phase in flight is not referred to any more), C19_then_start_is_accepted, C19_invariant_all_runs, about Model/Client.v (APIClient bookkeeping over a sequence of Model/Conn.v connections). "
             "The run-level theorems rest on an invariant preserved by every label of the connection machine (Proofs/ConnWedge.v: a connection that never was CONNECTED only closes while one of its connect coroutines is in flight, through a client call, or with the matching observation), lifted to the client in Proofs/ClientProofs.v. "
             "Tied by trace validation of the composite model against the real APIClient over several consecutive sessions (with and without a user stop callback), the property predicate evaluated on the implementation after every callback and at every quiescent point, start / command probes at every stage and after the story, and a restart-from-the-stop-callback probe.",
        note=CONN_NOTE + "Stories use the client the way its API intends (finish_connection once, after start_connection; a new attempt is not started while a coroutine of the previous connection object has not returned, except for the final probe). Behaviour outside that (DESIGN.md F12/F13) is recorded, not modelled.",
        tech="machine-checked proof in Coq (invariant over all labels of the connection machine lifted to client runs by induction) + client-level trace validation over several consecutive sessions",
        ref="DESIGN.md §5 C19, §9.1"),
    "C20": dict(
        text="Coq theorems about Model/Resolver.v (mirror of host_resolver.async_resolve_host and zeroconf.ZeroconfManager; ip_address / mDNS / getaddrinfo are oracles, util.py string predicates modelled on strings): C20_literal_verbatim (no lookup, own address), C20_local_name_mdns_first (mDNS first with the name up to the first dot, IPv6 before IPv4, OS resolver iff mDNS gave nothing or failed), "
             "C20_other_name_os_only, C20_in_order_never_empty / C20_never_returns_empty / C20_calls_in_order (for all host lists and oracle outcomes), C20_never_closes_application_instance (for ALL operation sequences on a manager), C20_lookup_closes_what_it_created, C20_lookup_keeps_existing, C20_stop_closes_library_instance, C20_stop_keeps_application_instance. "
             "Tied by running the real async_resolve_host / ZeroconfManager with fake mDNS and getaddrinfo on host lists x oracle outcomes (exhaustive for single hosts, pairs in thorough) and on all manager operation sequences up to length 4 (6 in thorough), compared with the extracted model and an oracle from the property text.",
        note=COMMON_NOTE + "ipaddress.ip_address is an oracle (which strings are literals is an input); zeroconf's own behaviour is replaced by fakes.",
        tech="machine-checked proof in Coq (induction over host lists and over manager operation sequences) + model/implementation correspondence with fake resolvers",
        ref="DESIGN.md §5 C20"),
}

NOT_YET = "not yet claimed: model and proof under construction (see DESIGN.md §8 implementation order)"

# added in the round-7 strengthening (DESIGN.md 9.3): theorems about several sessions side by side, and what the probes beside the stories test
EXTRA = {
    "C02": " Two sessions of one process and refused batches: neighbour_probe (a write refused by one session's transport, then a batch on another), refused_batch_history_probe (send_messages calls of which some are refused must leave the Noise nonce sequence consecutive). inside_read_probe: batches sent while a read is being parsed (the connection's own answers, a command from a state callback) are each one write handed to the transport before data_received returns.",
    "C04": " C04_plaintext_error_is_final (Proofs/PlainSticky.v: after a read that reported a complete wrong first byte a plaintext helper ends every later read in the error again and delivers nothing, for all later reads); probed on the real helper with later reads, and through APIClient with the expected name set before / between the connect phases. deviation_during_disconnect_probe: a deviation while a graceful disconnect waits still yields the specific error class for the request in flight.",
    "C05": " C05_crowd_monotone (Proofs/Product.v, Proofs/ConnPair.v: beside any other connection of the process the state of a connection still only moves forward); crowd_probe (9 and more connections starting at once) and stale_awaitable_probe test that the code shares nothing between connections and evaluates its guards when a phase runs.",
    "C07": " For sessions side by side: C07_sibling_sessions_independent, C07_sibling_never_blocks, C07_sibling_true_only_if_initiated_here (in the interleaving product of two connection machines each stop callback reports a graceful disconnect only if one was initiated on THAT connection); siblings_probe and foreign_loop_probe on the implementation. stop_callback_chain_probe: three consecutive sessions whose first slow stop callback returns / raises / is cancelled.",
    "C08": " Overlapping disconnect() calls and a client re-connected during a graceful disconnect are explored on the implementation only (the model has one disconnect task). pause_inside_write_probe: pause_writing() from inside transport.write() while a request is written.",
    "C09": " Other-platform branches: every module-level flag computed from sys.platform flipped x debug logging x message size, and the same probe with the library imported as on win32 in a child interpreter (vlib/otherplatform.py). slow_stop_hook_probe: client.disconnect() is bounded whatever the application's stop callback does. endless_parts_probe (a multi-message answer that never ends is cut off at the call's time-out).",
    "C10": " C10_neighbour_sessions_independent, C10_neighbour_all_runs (two keep-alive schedules side by side: each one's pings and death are those of its own run); every seventh schedule runs beside another live session with the same K established a fraction of K earlier. Every sixth schedule runs with a request/response call in flight throughout.",
    "C11": " deadline_probe: unanswered calls fail exactly at their timeout, on this platform and with the library imported as on win32. one_shot_subscriber_probe: a self-removing subscriber of the response type, and a call started inside a callback for its own response type.",
    "C12": " C12_neighbour_sessions_independent (+ example: A's refused write, then B answers its ping with exactly one PingResponse); recycled_buffer_probe (reads in a refilled bytearray / pool memoryview, stream cut at every byte) and neighbour_answer_probe on the implementation. multi_type_subscription_probe (one subscriber on several types registered at once, another on one of them).",
    "C03": " Peer requests (PingRequest, GetTimeRequest) encrypted right behind the handshake frame; reads handed over in recycled buffers; the expected name configured before / between the connect phases through APIClient.",
    "C06": " client_attempts_case with the expected name configured in the constructor / before / between the phases; overlapping_finish_case (two overlapping finish_connection() calls against a refused device, under the real transport contract).",
    "C13": " The API sweep exercises every subscription (one message per registered class, boolean fields set and plain), with asynchronous and synchronous callbacks that raise, and every awaitable entry point against a silent device (time-out and cancellation paths).",
    "C14": " Every converted model is compared before and after the caller modifies / clears its wire message; unknown enum numbers are set deterministically in every enum field, nested elements included.",
    "C15": " Refused values (a value the wire field cannot hold while all other arguments are fine) must raise and write nothing; commands issued from a state callback in reads that end inside the next frame are on the wire when the call returns. Positional calls in the parameter order published at the pinned commit (vlib/public_signatures.json) must write what the keyword call writes.",
    "C16": " refused_operation_probe, self_unsubscribe_probe, raising_state_callback_probe. double_unsubscribe_probe.",
    "C17": " mutating_subscriber_probe (a subscriber that modifies the models it receives, a second client listening), foreign_loop_va_probe. repeated_subscription_probe (subscribe_logs again with the same handler).",
    "C18": " name assigned after construction, app_disconnect_probe (real APIClient + ReconnectLogic, the application disconnects a managed session), raising_on_connect_probe. stop_start_stop_probe.",
    "C20": " C20_failed_creation_changes_nothing (a host on which the mDNS engine cannot be created is part of the manager model and of the enumerated histories); overlapping_resolves_probe, stop_during_attempt_probe, manager_overlap_probe. One name configured in two address forms with differing OS answers.",
    "C19": " C19_two_clients_independent, C19_never_wedged_beside_another_client (product of two client machines); fault_forms_probe (session deaths by non-OSError exceptions and write refusals by RuntimeError, with and without a call in flight). no_session_sweep also while the second connect phase waits for the device.",
}


def main():
    checks = []
    for pid, c in sorted(CLAIMED.items()):
        checks.append({
            "property_id": pid,
            "quick_cmd": f"./check {pid} --tier quick",
            "thorough_cmd": f"./check {pid} --tier thorough",
            "evidence_file": f"/verif/evidence/{pid}.json",
            "replay_cmd_template": f"./check {pid} --replay {{path}}",
            "engine": "coq-proof+correspondence",
            "level_claimed": {"category": "proof", "text": c["text"] + EXTRA.get(pid, ""), "design_ref": c["ref"]},
            "level_note": c["note"],
            "technique": c["tech"],
        })
    all_ids = [f"C{i:02d}" for i in range(1, 21)]
    m = {
        "version": 1,
        "setup_cmd": "./setup.sh",
        "hooks": {
            "guard": "AIOESPHOMEAPI_VERIF",
            "enable": "no source hooks are needed: every observation is made from outside (fake transports, virtual-time event loop); the checks set AIOESPHOMEAPI_VERIF=1 for uniformity",
            "baseline_off_cmd": "cd /repo && /venv/bin/python -m pytest -q -p no:cacheprovider --timeout=900",
            "source_commits": [],
            "add_only": True,
        },
        "engines": [{
            "name": "coq-proof+correspondence", "path": "/verif/check",
            "serves_properties": sorted(CLAIMED),
            "kind_free_text": "Coq 8.16.1 proofs about hand-written / translator-generated Gallina models; extracted OCaml model run differentially against the real Python code under a virtual-time event loop",
        }],
        "checks": checks,
        "not_applicable": [{"property_id": p, "reason": NOT_YET} for p in all_ids if p not in CLAIMED],
        "notes": "See DESIGN.md. Fix commits made in /repo are listed in known_findings.json ('fixed:' entries).",
    }
    (ROOT / "MANIFEST.json").write_text(json.dumps(m, indent=1))


if __name__ == "__main__":
    main()
