#!/venv/bin/python
"""Markdown table of the seeded changes and the clause of the check that reports each (from seeded/*/meta.json)."""
import glob, json, re
rows = []
for f in sorted(glob.glob('/verif/seeded/*/meta.json')):
    d = json.load(open(f))
    notes = open(f.replace('meta.json', 'notes.md')).read().strip().splitlines()[0]
    title = re.sub(r'^#\s*C\d\d\s*[/ -]*\s*m\d+\s*[-:]*\s*', '', notes).strip()
    det = d.get('detected_by') or {}
    cells = []
    for p, r in det.items():
        sigs = []
        nfi = False
        for x in r['lines']:
            if x.startswith('VIOLATION'):
                m = re.search(r'replays/C\d\d_(.*?)\.json', x)
                s = (m.group(1) if m else '?').replace('C%s_' % p[1:], '')
                s = re.sub(r'^C\d\d_', '', s)
                sigs.append(s)
                nfi = nfi or 'no-failing-input-found' in x
        if r.get('exit') == 0:
            cells.append(f"{p}: not reported (outside the property under the transport contract, see the round's paragraph)")
            continue
        cells.append(f"{p}: " + ", ".join(f"`{s}`" for s in sigs[:3]) + (" (no failing input found)" if nfi and len(sigs) == 1 else ""))
    rows.append(f"| {d['id']} | {title} | {'; '.join(cells)} |")
print("| change | what it does (title of its notes.md) | reported by (clauses of the quick check, replay file names) |")
print("|---|---|---|")
print("\n".join(rows))
